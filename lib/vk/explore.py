"""Stateless, deviation-bounded explorer over the controlled loop (engine E1).

An execution is identified by its list of choice indices.  ``explore`` runs the empty prefix with
default choices (index 0 everywhere), then pushes every alternative at every later choice point
whose cost fits the deviation bound:

* data choices (``env.choose``) and quiescent choices (ready queue empty) cost nothing and are
  therefore enumerated exhaustively,
* a preemptive choice (ready queue non-empty, option other than ``run``) costs one deviation.

Live coroutines cannot be copied, so every execution replays its prefix on a fresh loop.
"""

from __future__ import annotations

import gc
import itertools
import logging
import traceback
from typing import Any

import anyio
import anyio._backends._asyncio as _ab

from .vloop import Deadlock, Env, HorizonExceeded, ReplayDivergence

# ---------------------------------------------------------------------------------------------
# determinism patch for anyio's CancelScope (hash by creation order instead of address)
_scope_seq = itertools.count(1)
_scope_mode = 0


class DetCancelScope(_ab.CancelScope):  # type: ignore[misc]
    __slots__ = ("_vseq",)

    def __init__(self, *a: Any, **kw: Any) -> None:
        n = next(_scope_seq)
        self._vseq = (1 << 20) - n if _scope_mode else n
        super().__init__(*a, **kw)

    def __hash__(self) -> int:
        return self._vseq

    def __eq__(self, other: object) -> bool:
        return self is other


_ab.CancelScope = DetCancelScope  # type: ignore[misc]


def reset_determinism(hash_mode: int) -> None:
    global _scope_seq, _scope_mode
    _scope_seq = itertools.count(1)
    _scope_mode = hash_mode


logging.getLogger("asyncio").setLevel(logging.CRITICAL + 1)
logging.getLogger("asphalt.core").setLevel(logging.CRITICAL + 1)


# ---------------------------------------------------------------------------------------------
class Chooser:
    __slots__ = ("prefix", "i", "points", "labels")

    def __init__(self, prefix: list[int]) -> None:
        self.prefix = prefix
        self.i = 0
        # (n_options, chosen, preemptive, allowed alternatives, state signature)
        self.points: list[tuple] = []
        self.labels: list[tuple] = []

    def pick(self, kind: str, opts: list[tuple], env: Env) -> int:
        if self.i < len(self.prefix):
            c = self.prefix[self.i]
            if c >= len(opts):
                raise ReplayDivergence(f"choice {self.i}: index {c} but only {len(opts)} options {opts}")
        else:
            c = 0
        self.i += 1
        pre = kind == "preempt"
        if pre:
            flt = env.inject_filter
            allowed = tuple(a for a in range(1, len(opts)) if flt is None or flt(opts[a]))
        else:
            allowed = tuple(range(1, len(opts)))
        self.points.append((len(opts), c, pre, allowed, hash((env.h, tuple(opts)))))
        self.labels.append(opts[c])
        return c


class ExecResult:
    __slots__ = ("outcome", "fails", "trace", "h", "points", "labels", "choices", "steps", "extra")

    def __init__(self) -> None:
        self.outcome = ""
        self.fails: list[tuple[str, str]] = []
        self.trace: list[tuple] = []
        self.h = 0
        self.points: list[tuple] = []
        self.labels: list[tuple] = []
        self.choices: list[int] = []
        self.steps = 0
        self.extra: dict[str, Any] = {}


def execute(check: Any, program: Any, prefix: list[int], hash_mode: int = 0, backend: str = "asyncio") -> ExecResult:
    """Run one execution of ``check``'s harness for ``program`` following ``prefix``."""
    chooser = Chooser(prefix)
    if backend == "trio":
        from .tloop import TrioEnv

        env = TrioEnv(chooser, hash_mode)
    else:
        env = Env(chooser, hash_mode)
    env.inject_filter = None
    reset_determinism(hash_mode)
    res = ExecResult()
    try:
        check.run(env, program)
        res.outcome = "done"
    except Deadlock:
        res.outcome = "deadlock"
    except HorizonExceeded:
        res.outcome = "horizon"
    except ReplayDivergence:
        raise
    except BaseException as e:  # noqa: BLE001 - anything escaping the harness is reported
        if backend == "trio" and getattr(env, "deadlocked", False):
            res.outcome = "deadlock"
        elif backend == "trio" and _has_replay_divergence(e):
            raise ReplayDivergence(str(e)) from e
        else:
            res.outcome = "escaped:" + type(e).__name__
        env.data["escaped"] = e
        env.data["escaped_tb"] = "".join(traceback.format_exception(e))[-3000:]
    env.in_loop = False
    try:
        check.verdict(env, program, res.outcome)
    except BaseException as e:  # noqa: BLE001
        env.fail("oracle-crash", "".join(traceback.format_exception(e))[-3000:])
    res.fails = env.fails
    res.trace = env.trace
    res.h = hash((env.h, res.outcome))
    res.points = chooser.points
    res.labels = chooser.labels
    res.choices = [p[1] for p in chooser.points]
    res.steps = env.loop.steps if env.loop is not None else 0
    global MAX_STEPS_SEEN
    if res.steps > MAX_STEPS_SEEN:
        MAX_STEPS_SEEN = res.steps
    return res


MAX_STEPS_SEEN = 0


def _has_replay_divergence(e: BaseException) -> bool:
    seen = set()
    while e is not None and id(e) not in seen:
        seen.add(id(e))
        if isinstance(e, ReplayDivergence):
            return True
        if isinstance(e, BaseExceptionGroup) and any(_has_replay_divergence(x) for x in e.exceptions):
            return True
        e = e.__cause__ or e.__context__  # type: ignore[assignment]
    return False


def run_main_asyncio(env: Any, main, *args: Any) -> Any:
    """run ``main`` on the environment's backend (the name is historical: trio environments are accepted too)"""
    if env.backend == "trio":
        from .tloop import run_main_trio

        return run_main_trio(env, main, *args)
    return anyio.run(main, *args, backend="asyncio", backend_options={"loop_factory": env.loop_factory})


class Summary(dict):
    """Counts returned by a worker for one unit (program)."""


def new_summary() -> dict:
    return {
        "evaluations": 0,
        "transitions": 0,
        "states": 0,
        "distinct": 0,
        "nontrivial": 0,
        "violations": [],
        "capped": False,
        "samples": [],
        "outcomes": {},
        "max_dev": 0,
        "errors": [],
    }


_n_since_gc = 0


def explore_program(check: Any, program: Any, bound: int, max_execs: int, hash_modes=(0,), backends=("asyncio",)) -> dict:
    s = new_summary()
    sigs: set[int] = set()
    traces: set[int] = set()
    nontrivial: set[int] = set()
    global _n_since_gc
    for hm, backend in [(h, b) for b in backends for h in (hash_modes if b == "asyncio" else (0,))]:
        stack: list[list[int]] = [[]]
        while stack:
            if s["evaluations"] >= max_execs:
                s["capped"] = True
                break
            prefix = stack.pop()
            res = execute(check, program, prefix, hm, backend)
            s["evaluations"] += 1
            _n_since_gc += 1
            if _n_since_gc >= 400:
                gc.collect()
                _n_since_gc = 0
            pts = res.points
            s["transitions"] += len(pts) - max(len(prefix) - 1, 0)
            for p in pts[max(len(prefix) - 1, 0):]:
                sigs.add(p[4])
            key = hash((res.h, hm, backend))
            s.setdefault("per_backend", {})[backend] = s.setdefault("per_backend", {}).get(backend, 0) + 1
            traces.add(key)
            n_env = sum(1 for ev in res.trace if ev and ev[0] == "env")
            cost = 0
            costs = []
            for (_n, c, pre, _al, _sg) in pts:
                costs.append(cost)
                if pre and c != 0:
                    cost += 1
            if n_env >= 2 or cost >= 1:
                nontrivial.add(key)
            s["max_dev"] = max(s["max_dev"], cost)
            s["outcomes"][res.outcome] = s["outcomes"].get(res.outcome, 0) + 1
            s.setdefault("extra", {})["max_steps"] = max(s.setdefault("extra", {}).get("max_steps", 0), res.steps)
            if res.outcome == "horizon":
                s["errors"].append({"kind": "horizon", "program": program, "choices": res.choices})
            if res.fails:
                # replay twice before believing it
                ok = True
                for _ in range(2):
                    r2 = execute(check, program, res.choices, hm, backend)
                    if r2.h != res.h or [f[0] for f in r2.fails] != [f[0] for f in res.fails]:
                        ok = False
                if not ok:
                    s["errors"].append({"kind": "nondeterminism", "program": program, "choices": res.choices})
                elif len(s["violations"]) < 3:
                    s["violations"].append(
                        {
                            "keys": sorted({f[0] for f in res.fails}),
                            "fails": [list(f) for f in res.fails[:6]],
                            "program": program,
                            "choices": res.choices,
                            "hash_mode": hm,
                            "backend": backend,
                            "trace": [list(map(_j, ev)) for ev in res.trace[-80:]],
                            "trace_hash": res.h,
                            "outcome": res.outcome,
                        }
                    )
                s["n_violating"] = s.get("n_violating", 0) + 1
                kh = s.setdefault("keyhist", {})
                for f in {f[0] for f in res.fails}:
                    kh[f] = kh.get(f, 0) + 1
                if s.get("n_violating", 0) >= 25:
                    # enough counterexamples for this program; do not waste the budget
                    s["stopped_after_violations"] = True
                    break
            if len(s["samples"]) < 1 or (len(s["samples"]) < 2 and cost >= 1):
                s["samples"].append(
                    {
                        "program": program,
                        "backend": backend,
                        "choices": res.choices,
                        "chosen": [list(map(_j, l)) for l in res.labels][:60],
                        "trace": [list(map(_j, ev)) for ev in res.trace[:120]],
                        "outcome": res.outcome,
                    }
                )
            if res.outcome == "horizon":
                # a runaway execution (reported as a violation above): its program is not explored any further
                s["stopped_after_violations"] = True
                break
            for i in range(len(prefix), len(pts)):
                n, c, pre, allowed, _sg = pts[i]
                if pre and costs[i] + 1 > bound:
                    continue
                base = res.choices[:i]
                for alt in allowed:
                    stack.append(base + [alt])
    s["extra"] = {"executions_" + b: n for b, n in s.get("per_backend", {}).items()}
    s["states"] = len(sigs)
    s["distinct"] = len(traces)
    s["nontrivial"] = len(nontrivial)
    return s


def _j(x: Any) -> Any:
    if isinstance(x, (str, int, float, bool)) or x is None:
        return x
    if isinstance(x, (tuple, list)):
        return [_j(y) for y in x]
    return repr(x)


class E1Check:
    """Base class of schedule/fault exploration checks."""

    id = "C00"
    engine = "E1"
    level = "model_checking"

    def units(self, tier: str, seed: int) -> list:
        raise NotImplementedError

    def bound(self, tier: str, program: Any) -> int:
        return 0 if tier == "quick" else 1

    def max_execs(self, tier: str, program: Any) -> int:
        return 20000 if tier == "quick" else 400000

    def hash_modes(self, tier: str, program: Any) -> tuple:
        return (0,) if tier == "quick" else (0, 1)

    def run(self, env: Env, program: Any) -> None:
        run_main_asyncio(env, self.main, env, program)

    async def main(self, env: Env, program: Any) -> None:
        raise NotImplementedError

    def deadlock_ok(self, program: Any) -> bool:
        return False

    def verdict(self, env: Env, program: Any, outcome: str) -> None:
        if outcome == "deadlock" and not self.deadlock_ok(program):
            env.fail("deadlock", "no enabled event although the harness has not finished")
        elif outcome == "horizon":
            env.fail("horizon", "execution did not terminate within the horizon")
        elif outcome.startswith("escaped:"):
            env.fail("unexpected-exception", env.data.get("escaped_tb", outcome))

    def backends_for(self, tier: str, program: Any) -> tuple:
        return ("asyncio",)

    def work(self, unit: Any, tier: str) -> dict:
        return explore_program(
            self, unit, self.bound(tier, unit), self.max_execs(tier, unit), self.hash_modes(tier, unit), self.backends_for(tier, unit)
        )

    def replay(self, rec: dict) -> ExecResult:
        return execute(self, rec["program"], rec["choices"], rec.get("hash_mode", 0), rec.get("backend", "asyncio"))
