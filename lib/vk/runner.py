"""Runner shared by all checks: units -> worker pool -> aggregation -> evidence / replays / verdict."""

from __future__ import annotations

import argparse
import importlib
import json
import multiprocessing as mp
import os
import random
import sys
import time
from pathlib import Path
from typing import Any

VERIF = Path(os.environ.get("VERIF_HOME", "/verif"))
KNOWN = VERIF / "known_findings.json"
OUT = Path(os.environ.get("VERIF_OUT", str(VERIF)))

_CHECK = None
_TIER = "quick"


def load_check(cid: str) -> Any:
    mod = importlib.import_module(f"vk.checks.{cid.lower()}")
    return mod.CHECK


_STOP: Any = None


def _init(cid: str, tier: str, stop: Any = None) -> None:
    global _CHECK, _TIER, _STOP
    import gc

    _STOP = stop

    gc.disable()
    _CHECK = load_check(cid)
    _TIER = tier


def _work(unit: Any) -> dict:
    t = time.time()
    if _STOP is not None and _STOP.value:
        return {"skipped_unit": 1}
    try:
        s = _CHECK.work(unit, _TIER)
    except BaseException as e:  # noqa: BLE001
        import traceback

        s = {
            "evaluations": 0, "transitions": 0, "states": 0, "distinct": 0, "nontrivial": 0,
            "violations": [], "capped": False, "samples": [], "outcomes": {}, "max_dev": 0,
            "errors": [{"kind": "worker-crash", "unit": repr(unit)[:300],
                        "tb": "".join(traceback.format_exception(e))[-3000:]}],
        }
    s["wall"] = time.time() - t
    return s


def load_known() -> list[dict]:
    if KNOWN.exists():
        return json.loads(KNOWN.read_text()).get("findings", [])
    return []


def match_known(cid: str, viol: dict, known: list[dict]) -> dict | None:
    for k in known:
        if k.get("status") != "known" or k.get("property") != cid:
            continue
        if k.get("key") not in viol["keys"]:
            continue
        where = k.get("where", {})
        prog = viol.get("program")
        ok = True
        for f, v in where.items():
            if not isinstance(prog, dict) or prog.get(f) != v:
                ok = False
        # every failing key of the violation must be covered by this entry's keys
        extra = set(viol["keys"]) - set(k.get("also", [])) - {k["key"]}
        if ok and not extra:
            return k
    return None


def run_check(cid: str, tier: str, seed: int, jobs: int | None = None) -> int:
    t0 = time.time()
    check = load_check(cid)
    units = check.units(tier, seed)
    rnd = random.Random(seed)
    order = list(range(len(units)))
    rnd.shuffle(order)
    units = [units[i] for i in order]
    jobs = jobs or int(os.environ.get("VERIF_JOBS", "0")) or min(16, os.cpu_count() or 1)
    main_units = [u for u in units if isinstance(u, dict) and u.get("_main")]
    units = [u for u in units if not (isinstance(u, dict) and u.get("_main"))]
    pre_results = []
    if main_units:
        # these units parallelise themselves (e.g. a BFS with one global seen-set): run them in this process
        _init(cid, tier)
        import gc as _gc

        pre_results = [_work(u) for u in main_units]
        _gc.enable()
    if not units or (int(os.environ.get("VERIF_STOP_AFTER", "0") or 0) and any(r.get("violations") for r in pre_results)):
        results = []
    elif getattr(check, "serial", False) or jobs == 1 or len(units) == 1:
        _init(cid, tier)
        results = [_work(u) for u in units]
    else:
        ctx = mp.get_context("fork")
        chunk = max(1, min(8, len(units) // (jobs * 8) or 1))
        # VERIF_STOP_AFTER=n (opt-in, used by tools/seedverify.py when it only needs to know WHETHER a seeded defect is reported): stop
        # once n units have reported violations; such a run is not exhaustive and says so (capped)
        stop_after = int(os.environ.get("VERIF_STOP_AFTER", "0") or 0)
        results = []
        stop = ctx.Value("b", 0) if stop_after else None
        skipped = 0
        with ctx.Pool(jobs, initializer=_init, initargs=(cid, tier, stop)) as pool:
            for r in pool.imap_unordered(_work, units, chunksize=chunk):
                if r.get("skipped_unit"):
                    skipped += 1
                    continue
                results.append(r)
                if stop is not None and not stop.value and sum(1 for x in results if x.get("violations")) >= stop_after:
                    stop.value = 1  # the workers return at once for every unit they have not begun
        if skipped:
            results.append({"capped": True, "extra": {"stopped_early_units_skipped": skipped}})

    results = pre_results + results
    n_units = len(units) + len(main_units)
    tot = {k: 0 for k in ("evaluations", "transitions", "states", "distinct", "nontrivial")}
    outcomes: dict[str, int] = {}
    violations: list[dict] = []
    errors: list[dict] = []
    samples: list[Any] = []
    capped = 0
    max_dev = 0
    extra: dict[str, Any] = {}
    keyhist: dict[str, int] = {}
    for s in results:
        for kk, nn in s.get("keyhist", {}).items():
            keyhist[kk] = keyhist.get(kk, 0) + nn
        for k in tot:
            tot[k] += s.get(k, 0)
        for o, n in s.get("outcomes", {}).items():
            outcomes[o] = outcomes.get(o, 0) + n
        violations.extend(s.get("violations", []))
        errors.extend(s.get("errors", []))
        capped += 1 if s.get("capped") else 0
        max_dev = max(max_dev, s.get("max_dev", 0))
        for k, v in s.get("extra", {}).items():
            if k.startswith("max_") and isinstance(v, (int, float)):
                extra[k] = max(extra.get(k, 0), v)
            elif isinstance(v, (int, float)):
                extra[k] = extra.get(k, 0) + v
            else:
                extra.setdefault(k, v)
    # a few samples, the deepest first
    allsamples = [x for s in results for x in s.get("samples", [])]
    allsamples.sort(key=lambda x: -len(json.dumps(x)))
    samples = allsamples[:1] + allsamples[len(allsamples) // 2: len(allsamples) // 2 + 1] + allsamples[-1:]

    known = load_known()
    rc = 0
    lines: list[str] = []
    new_viol = 0
    known_hits: dict[str, int] = {}
    rdir = OUT / "replays" / cid
    seen_sigs: set[str] = set()
    for v in violations:
        k = match_known(cid, v, known)
        if k is not None:
            known_hits[k["id"]] = known_hits.get(k["id"], 0) + 1
            continue
        sig = json.dumps([v["keys"], v.get("program")], sort_keys=True, default=repr)
        if sig in seen_sigs:
            continue
        seen_sigs.add(sig)
        new_viol += 1
        if new_viol <= 10:
            rdir.mkdir(parents=True, exist_ok=True)
            path = rdir / f"{tier}-{new_viol}.json"
            rec = {"property": cid, "tier": tier, **v}
            path.write_text(json.dumps(rec, indent=1, default=repr))
            lines.append(f"VIOLATION property={cid} replay={path}")
            lines.append(f"  keys={v['keys']} first={v['fails'][0][1][:300] if v['fails'] else ''}")
        rc = 1
    for k in known:
        if k.get("status") == "known" and k.get("property") == cid and known_hits.get(k["id"]):
            lines.append(f"KNOWN-FINDING: property={cid} {k['what']} (matched {known_hits[k['id']]} executions)")
    if errors:
        rc = 2 if rc == 0 else rc
        for e in errors[:5]:
            lines.append(f"HARNESS-ERROR property={cid} {json.dumps(e, default=repr)[-700:]}")

    exhaustive = capped == 0 and not errors
    wall = time.time() - t0
    ev = {
        "property_id": cid,
        "tier": tier,
        "seed": seed,
        "level": check.level,
        "coverage": {
            "evaluations": tot["evaluations"],
            "distinct_nontrivial": tot["nontrivial"],
            "rule": check.rule(tier) if hasattr(check, "rule") else "",
            "samples": samples,
            "states": tot["states"],
            "transitions": tot["transitions"],
            "traces_validated_against_impl": tot["evaluations"] if check.engine != "E2" else tot["transitions"],
            "exhaustive": exhaustive,
            "units": n_units,
            "units_capped": capped,
            "distinct_traces": tot["distinct"],
            "outcomes": outcomes,
            "max_deviations_used": max_dev,
            "bounds": check.bounds(tier) if hasattr(check, "bounds") else {},
            "engine": check.engine,
            "backends": getattr(check, "backends", ["asyncio"]),
            "known_findings_matched": known_hits,
            **extra,
        },
        "assumptions": getattr(check, "assumptions", []),
        "wall_s": round(wall, 2),
        "violations": new_viol,
    }
    (OUT / "evidence").mkdir(parents=True, exist_ok=True)
    (OUT / "evidence" / f"{cid}.json").write_text(json.dumps(ev, indent=1, default=repr))
    for ln in lines:
        print(ln)
    print(
        f"{cid} tier={tier} seed={seed} units={n_units} executions={tot['evaluations']} "
        f"states={tot['states']} transitions={tot['transitions']} distinct_traces={tot['distinct']} "
        f"outcomes={outcomes} capped_units={capped} violations={new_viol} violating_keys={keyhist} wall={wall:.1f}s"
    )
    return rc


def replay(path: str) -> int:
    rec = json.loads(Path(path).read_text())
    rec["_path"] = path
    cid = rec["property"]
    _init(cid, rec.get("tier", "quick"))
    check = _CHECK
    out = check.replay(rec)
    if hasattr(out, "trace"):
        for ev in out.trace:
            print("  ", ev)
        print("outcome:", out.outcome)
        for f in out.fails:
            print("FAIL", f[0], "-", f[1][:2000])
        if out.fails:
            print(f"VIOLATION property={cid} replay={path}")
            return 1
        print("no violation on this tree")
        return 0
    return int(out or 0)


def main(argv: list[str] | None = None) -> int:
    ap = argparse.ArgumentParser()
    ap.add_argument("check", nargs="?")
    ap.add_argument("--tier", default=os.environ.get("VERIF_TIER", "quick"))
    ap.add_argument("--replay")
    ap.add_argument("--jobs", type=int)
    a = ap.parse_args(argv)
    if a.replay:
        return replay(a.replay)
    seed = int(os.environ.get("VERIF_SEED", "0") or 0)
    if a.tier not in ("quick", "thorough"):
        a.tier = "quick"
    return run_check(a.check, a.tier, seed, a.jobs)


if __name__ == "__main__":
    sys.exit(main())
