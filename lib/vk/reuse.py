"""Shared scenario: a subscriber outlives the owner of a signal, the owner is garbage collected and a new owner is
allocated at the same address (CPython reuses freed blocks).  The new owner's channel must be a fresh one."""

from __future__ import annotations

import gc
from typing import Any, Callable

import anyio


async def id_reuse_case(make_owner: Callable[[], Any], get_signal: Callable[[Any], Any], publish: Callable[[Any], Any], attempts: int = 300) -> tuple[list, bool]:
    """returns (fails, covered).  ``publish(owner)`` makes the owner dispatch one event and returns it (or None)."""
    fails: list = []
    got: list = []

    async def consumer(stream: Any) -> None:
        async for ev in stream:
            got.append(ev)

    # fill the partially used allocator pools of the owner's size class first, so that the owner lives in the pool that
    # serves the next allocation (in a long-lived worker process the freed block would otherwise not be reused)
    gc.collect()  # garbage of earlier work must not be freed (and its blocks recycled) in the middle of the scenario
    fill = [make_owner() for _ in range(3000)]
    old = make_owner()
    sig = get_signal(old)
    covered = False
    async with sig.stream_events() as stream:
        async with anyio.create_task_group() as tg:
            tg.start_soon(consumer, stream)
            await anyio.lowlevel.checkpoint()
            # no allocation of the owner's size class may happen between the owner's death and the candidates
            keep: list = [None] * attempts
            new = None
            cand = None
            i = 0
            oid = id(old)
            del old, sig
            gc.collect()
            while i < attempts:
                cand = make_owner()
                if id(cand) == oid:
                    new = cand
                    break
                keep[i] = cand
                i += 1
            del keep, cand
            if new is not None:
                covered = True
                ev = await publish(new)
                for _ in range(3):
                    await anyio.lowlevel.checkpoint()
                if ev is not None and getattr(ev, "source", None) is not new:
                    fails.append(("stale-channel", f"the event published by a new owner allocated at a collected owner's address carries source {getattr(ev, 'source', None)!r}"))
                if got:
                    fails.append(("stale-channel", "the subscriber of a collected owner received an event published by a new owner at the same address"))
            tg.cancel_scope.cancel()
    del fill
    return fails, covered


# ---------------------------------------------------------------------------------------------
# The scenario depends on the allocator handing the freed block out again, which is reliable in a fresh interpreter
# but not in a long-lived worker; the checks therefore run it in a subprocess: python -m vk.reuse <signal|context>
async def _scenario(kind: str) -> dict:
    from asphalt.core import Context, Event, Signal

    if kind == "signal":
        class Ev(Event):
            pass

        class Src:
            a = Signal(Ev)

        async def publish(owner: Any) -> Any:
            ev = Ev()
            owner.a.dispatch(ev)
            return ev

        fails, covered = await id_reuse_case(Src, lambda o: o.a, publish)
    else:
        async def publish(ctx: Any) -> Any:
            async with ctx:
                async with ctx.resource_added.stream_events() as own:
                    ctx.add_resource(object(), "fresh")
                    return await own.__anext__()

        async with Context():
            fails, covered = await id_reuse_case(Context, lambda c: c.resource_added, publish)
    return {"fails": [list(f) for f in fails], "covered": covered}


async def equal_owners_case(make_owner: Callable[[], Any], get_signal: Callable[[Any], Any], publish: Callable[[Any], Any]) -> list:
    """Two distinct owners that compare (and hash) equal are two channels: what one publishes reaches only its own subscribers
    and carries it as the source."""
    fails: list = []
    a, b = make_owner(), make_owner()
    got_a: list = []
    got_b: list = []

    async def consumer(stream: Any, sink: list) -> None:
        async for ev in stream:
            sink.append(ev)

    from asphalt.core import stream_events, wait_event

    if get_signal(a) is get_signal(b):
        fails.append(("equal-owners", "two distinct but equal owners share one bound signal"))
    got_multi: list = []
    waited: list = []

    async def waiter() -> None:
        waited.append(await wait_event([get_signal(a), get_signal(b)]))

    # (one stream over the same-named signal of BOTH owners, opened while nobody else listens: the two bound signals are then equal
    # field by field, yet they are two channels)
    async with stream_events([get_signal(a), get_signal(b)]) as sm:
        async with get_signal(a).stream_events() as sa, get_signal(b).stream_events() as sb:
            async with anyio.create_task_group() as tg:
                tg.start_soon(consumer, sa, got_a)
                tg.start_soon(consumer, sb, got_b)
                tg.start_soon(consumer, sm, got_multi)
                tg.start_soon(waiter)
                await anyio.lowlevel.checkpoint()
                await anyio.lowlevel.checkpoint()
                ev = await publish(b)
                for _ in range(4):
                    await anyio.lowlevel.checkpoint()
                n_a_before = len(got_a)
                ev2 = await publish(a)
                for _ in range(4):
                    await anyio.lowlevel.checkpoint()
                tg.cancel_scope.cancel()
    got_a_first, got_a = got_a[:n_a_before], got_a[:n_a_before]
    if ev is not None and ev2 is not None:
        if [id(e) for e in got_multi] != [id(ev), id(ev2)]:
            fails.append(("equal-owners", f"a stream over the signals of both (equal) owners received {len(got_multi)} of the 2 events, one from each owner"))
        if len(waited) != 1 or waited[0] is not ev:
            fails.append(("equal-owners", f"wait_event over the signals of both (equal) owners returned {waited!r}, the first event came from the second owner"))
    if ev is not None and getattr(ev, "source", None) is not b:
        fails.append(("equal-owners", f"an event published by one owner carries the other (equal) owner as source: {getattr(ev, 'source', None)!r}"))
    if got_a:
        fails.append(("equal-owners", "the subscriber of an equal but different owner received the event"))
    if len(got_b) != 1:
        fails.append(("equal-owners", f"the publishing owner's subscriber received {len(got_b)} events instead of 1"))
    return fails


def run_in_subprocess(kind: str, tries: int = 3) -> dict:
    import json
    import subprocess
    import sys

    last = {"fails": [], "covered": False}
    for _ in range(tries):
        r = subprocess.run([sys.executable, "-B", "-m", "vk.reuse", kind], capture_output=True, text=True, timeout=120)
        if r.returncode != 0:
            return {"fails": [["harness", f"reuse scenario crashed: {r.stderr[-800:]}"]], "covered": False, "crashed": True}
        last = json.loads(r.stdout.strip().splitlines()[-1])
        if last["covered"]:
            break
    return last


def summary_for(kind: str, prop: str) -> dict:
    out = run_in_subprocess(kind)
    s = {"evaluations": 1, "transitions": 1, "states": 1, "distinct": 1, "nontrivial": 1, "violations": [], "capped": False, "samples": [],
         "outcomes": {"done": 1}, "max_dev": 0, "errors": [], "extra": {"id_reuse_achieved": 1 if out["covered"] else 0}}
    if out.get("crashed"):
        # using a fresh owner's signal must not raise either: report it as a violation of the scenario
        s["violations"].append({"keys": ["stale-channel"], "fails": out["fails"], "program": {"reuse": True}, "choices": [], "trace": [], "outcome": "done"})
        s["keyhist"] = {"stale-channel": 1}
    elif out["fails"]:
        s["violations"].append({"keys": sorted({f[0] for f in out["fails"]}), "fails": out["fails"], "program": {"reuse": True},
                                "choices": [], "trace": [], "outcome": "done"})
        s["keyhist"] = {"stale-channel": 1}
    return s


if __name__ == "__main__":
    import json
    import sys

    print(json.dumps(anyio.run(_scenario, sys.argv[1])))
