"""Scripted component trees for the E1 checks C05, C06, C07, C12, C15.

A tree spec is a nested dict::

    {"alias": "", "children": [...], "prepare": [steps] | None, "start": [steps] | None, "ctor_fail": None | "E"}

from which real ``Component`` subclasses are built.  ``prepare()`` / ``start()`` interpret their list
of steps and log every observable event into the execution's trace under the component's path.
"""

from __future__ import annotations

from typing import Any

import anyio


class RA:
    def __init__(self, label: str) -> None:
        self.label = label

    def __repr__(self) -> str:
        return f"RA({self.label})"


class RB:
    def __init__(self, label: str) -> None:
        self.label = label

    def __repr__(self) -> str:
        return f"RB({self.label})"


class RAB(RA, RB):
    pass


class RAFalsy(RA):
    """a resource value that is falsy (an empty container): still a resource"""

    def __len__(self) -> int:
        return 0


class _RT(dict):
    """name -> type; "RG" is the PEP 585 alias dict[str, int]: a new (equal, not identical) object on every access"""

    def __getitem__(self, k: str) -> Any:
        if k == "RG":
            return dict[str, int]
        return dict.__getitem__(self, k)


class RG0:
    def __init__(self, label: str) -> None:
        self.label = label


RT = _RT({"RA": RA, "RB": RB, "RG": None})


class CompFail(Exception):
    pass


class FlakyError(Exception):
    pass


class CompFail2(ValueError):
    pass


class CompBaseFail(BaseException):
    """an application-defined BaseException (not an Exception, not a cancellation)"""


def lab(x: Any) -> Any:
    return getattr(x, "label", None) if x is not None else None


def paths(spec: dict, parent: str | None = None) -> list[tuple[str, dict]]:
    """(path, node) for every node of the tree, parents first; the root's path is ''."""
    if parent is None:
        p = ""
    else:
        p = f"{parent}.{spec['alias']}" if parent else spec["alias"]
    out = [(p, spec)]
    for c in spec.get("children", []):
        out.extend(paths(c, p))
    return out


class Tree:
    def __init__(self, env: Any, spec: dict) -> None:
        self.env = env
        self.spec = spec
        self.instances: dict[str, Any] = {}
        self.ctor_kwargs: dict[str, dict] = {}
        self.values: dict[str, Any] = {}
        self.fac_calls: dict[str, int] = {}
        self.svc_scopes: dict[str, Any] = {}
        self.injected: dict[tuple, Any] = {}
        self.raised: list[BaseException] = []
        self.root_class = self._build(spec, "")

    # ------------------------------------------------------------------------------------------
    def _build(self, node: dict, path: str) -> type:
        from asphalt.core import CLIApplicationComponent, Component

        tree = self
        env = self.env
        children = []
        for c in node.get("children", []):
            cpath = f"{path}.{c['alias']}" if path else c["alias"]
            children.append((c, self._build(c, cpath)))
            self.__dict__.setdefault("classes", {})[cpath] = children[-1][1]

        def __init__(self, **kw: Any) -> None:  # noqa: N807
            env.log("ctor", path)
            tree.instances[path] = self
            tree.ctor_kwargs[path] = kw
            if node.get("ctor_fail"):
                exc = (CompFail if node["ctor_fail"] == "E" else CompBaseFail if node["ctor_fail"] == "B" else CompFail2)(f"ctor {path}")
                tree.raised.append(exc)
                raise exc
            for c, cls in children:
                if not c.get("config_only"):
                    self.add_component(c["alias"], type=tree.type_decl(c, cls), **c.get("kwargs", {}))

        ns: dict[str, Any] = {"__init__": __init__, "_vpath": path}
        if node.get("prepare") is not None:
            async def prepare(self) -> None:
                await tree.run_steps(path, "prepare", node["prepare"])

            ns["prepare"] = prepare
        if node.get("start") is not None:
            if node.get("gen_start"):
                from asphalt.core import context_teardown

                @context_teardown
                async def start(self) -> Any:
                    # the part after the yield is a teardown callback of the context start_component() was called in
                    await tree.run_steps(path, "start", node["start"])
                    env.log("td-reg", f"gen:{path}")
                    yield
                    env.log("td", f"gen:{path}")
                    # (the teardown part awaits: under a cancelled teardown this is where the cancellation lands - the callbacks
                    # registered earlier still run)
                    await anyio.lowlevel.checkpoint()
            else:
                async def start(self) -> None:
                    await tree.run_steps(path, "start", node["start"])

            ns["start"] = start
        base: type = Component
        if node.get("run") is not None:
            base = CLIApplicationComponent

            async def run(self) -> Any:
                return await tree.run_steps(path, "run", node["run"])

            ns["run"] = run
        if node.get("awaitable_methods"):
            # prepare() / start() are plain functions that return an awaitable OBJECT (not a coroutine): still awaited by the framework
            class _AwObj:
                def __init__(self, coro: Any) -> None:
                    self.coro = coro

                def __await__(self) -> Any:
                    return self.coro.__await__()

            for meth in ("prepare", "start"):
                if meth in ns and not node.get("gen_start"):
                    ns[meth] = (lambda inner: (lambda self: _AwObj(inner(self))))(ns[meth])
        name = "Comp_" + (path.replace(".", "_").replace("/", "__") or "root")
        if node.get("inherit"):
            # the methods live on an intermediate user base class; the concrete class adds nothing
            methods = {k: ns.pop(k) for k in ("prepare", "start") if k in ns}
            mid = type(name + "_Base", (base,), methods)
            return type(name, (mid,), ns)
        return type(name, (base,), ns)

    def type_decl(self, node: dict, cls: type) -> Any:
        """How the component's type is declared: the class itself, or (node["byref"]) a ``module:attr`` reference as a configuration
        file would give it."""
        if not node.get("byref"):
            return cls
        import vkplugins.comps as mod

        attr = "Dyn_" + cls.__name__
        setattr(mod, attr, cls)
        return f"vkplugins.comps:{attr}"

    # ------------------------------------------------------------------------------------------
    async def run_steps(self, path: str, phase: str, steps: list) -> Any:
        import asphalt.core as ac

        env = self.env
        env.log("phase+", path, phase)
        try:
            for st in steps:
                k = st[0]
                if k == "gate":
                    await env.gate(f"{path}:{phase}:{st[1]}")
                    env.log("passed", path, phase, st[1])
                elif k == "cp":
                    await anyio.lowlevel.checkpoint()
                elif k == "add":
                    _, tname, name, label = st[:4]
                    v = (RAB if tname == "RAB" else RAFalsy if tname == "RAF" else RG0 if tname == "RG" else RT[tname])(label)
                    self.values[label] = v
                    types = [RA, RB] if tname == "RAB" else RA if tname == "RAF" else RT[tname]
                    kw = {}
                    if len(st) > 4 and st[4]:
                        kw["teardown_callback"] = lambda l=label: env.log("td", "res:" + l)
                    if len(st) > 5 and st[5] == "private":
                        # published in a private sub-context of the component: nobody else may notice
                        async with ac.Context():
                            ac.add_resource(v, name, types, **kw)
                            env.log("added-private", path, phase, tname, name, label)
                        continue
                    try:
                        ac.add_resource(v, name, types, **kw)
                    finally:
                        if isinstance(types, list):
                            # the publisher re-uses its list of types for something else right away
                            types.clear()
                            types.append(CompFail)
                    if kw:
                        env.log("td-reg", "res:" + label)
                    env.log("added", path, phase, tname, name, label)
                elif k == "addf":
                    _, tname, name, label, fkind = st
                    cls = RAB if tname == "RAB" else RT[tname]

                    def make(label: str = label, cls: type = cls) -> Any:
                        n = self.fac_calls.get(label, 0) + 1
                        self.fac_calls[label] = n
                        v = cls(f"{label}#{n}")
                        return v

                    if fkind == "async":
                        async def fcb(make=make) -> Any:
                            return make()
                    elif fkind == "aflaky":
                        async def fcb(make=make, label=label) -> Any:
                            n = self.fac_calls.get(label, 0) + 1
                            if n == 1:
                                self.fac_calls[label] = n
                                env.log("factory+", label, n)
                                await env.gate(f"fac:{label}")
                                env.log("factory!", label, n)
                                raise FlakyError(label)
                            # every call takes time (a gate), so that calls can overlap
                            env.log("factory+", label, n)
                            await env.gate(f"fac:{label}:{n}")
                            return make()
                    elif fkind == "agated":
                        async def fcb(make=make, label=label) -> Any:
                            # every call takes time (a gate): the caller is suspended inside the factory meanwhile
                            n = self.fac_calls.get(label, 0) + 1
                            env.log("factory+", label, n)
                            await env.gate(f"fac:{label}:{n}")
                            return make()
                    elif fkind == "union":
                        from typing import Union

                        def fcb(make=make) -> Any:  # type: ignore[misc]
                            return make()

                        fcb.__annotations__["return"] = Union[RA, RB]
                        ac.add_resource_factory(fcb, name)  # types taken from the return annotation
                        env.log("addedf", path, phase, "RAB", name, label)
                        continue
                    else:
                        def fcb(make=make) -> Any:  # type: ignore[misc]
                            return make()
                    types = [RA, RB] if tname == "RAB" else RT[tname]
                    if fkind == "private":
                        # registered in a private sub-context of the component (and used there): nobody else may notice
                        async with ac.Context():
                            ac.add_resource_factory(fcb, name, types=types)
                            ac.get_resource_nowait(RT[tname], name)
                            env.log("addedf-private", path, phase, tname, name, label)
                        continue
                    ac.add_resource_factory(fcb, name, types=types)
                    env.log("addedf", path, phase, tname, name, label)
                elif k == "get":
                    _, tname, name, api, optional = st[:5]
                    tag = st[5] if len(st) > 5 else f"{path}:{phase}"
                    T = RT[tname]
                    kw2 = {"optional": True} if optional else {}
                    ev0 = env.env_events
                    env.log("get+", tag, tname, name, api, optional)
                    try:
                        if api == "method":
                            r = await ac.current_context().get_resource(T, name, **kw2)
                        elif api == "shortcut":
                            r = await ac.get_resource(T, name, **kw2)
                        elif api == "nowait":
                            r = ac.get_resource_nowait(T, name, **kw2)
                        else:
                            r = await self._inject(tname, name, optional)()
                    except ac.ResourceNotFound:
                        env.log("get!", tag, "ResourceNotFound", env.env_events - ev0)
                        if len(st) > 6 and st[6] == "tolerate":
                            continue
                        raise
                    except FlakyError:
                        env.log("get!", tag, "FlakyError", env.env_events - ev0)
                        if len(st) > 6 and st[6] == "tolerate":
                            continue
                        raise
                    env.log("get-", tag, lab(r), env.env_events - ev0)
                elif k == "nested-pub":
                    # the component starts a sub-tree of its own whose leaf publishes a resource in start()
                    _, tname, rname, label = st[:4]

                    class PubLeaf(ac.Component):
                        async def start(self2) -> None:
                            v = RT[tname](label)
                            self.values[label] = v
                            ac.add_resource(v, rname, RT[tname])
                            env.log("added", path + ">leaf", "start", tname, rname, label)

                    class PubRoot(ac.Component):
                        def __init__(self2) -> None:
                            self2.add_component("leaf", PubLeaf)

                    await ac.start_component(PubRoot, {}, timeout=None)
                elif k == "stall-aclose":
                    # the component is suspended inside `await agen.aclose()` (an async generator finishing its clean-up)
                    async def agen() -> Any:
                        try:
                            yield 1
                        finally:
                            await env.gate(f"{path}:{phase}:aclose")

                    g = agen()
                    await g.asend(None)
                    await g.aclose()
                elif k == "fac-hs":
                    # the component is suspended in TaskFactory.start_task() waiting for the task's task_status.started()
                    label = st[1]
                    factory = await ac.start_background_task_factory()

                    async def hs_task(*, task_status: Any) -> None:
                        env.log("svc+", label)
                        try:
                            await env.gate(f"svc:{label}:handshake")
                            task_status.started()
                            env.log("svc-up", label)
                            # (a factory's tasks are waited for, not cancelled, when the context is torn down: this one ends by itself)
                        except BaseException as e:
                            env.log("svc!", label, type(e).__name__)
                            raise
                        finally:
                            env.log("svc-", label)

                    await factory.start_task(hs_task, label.replace(":", "_").replace(".", "_"))
                    env.log("svc-started", label)
                elif k == "nested-tree":
                    # the component starts a sub-tree of its own from inside its method; st[1] says whether that sub-tree fails
                    class InnerLeaf(ac.Component):
                        async def prepare(self2) -> None:
                            env.log("inner-prepare", path)
                            if st[1]:
                                exc = CompFail(f"inner of {path}")
                                self.raised.append(exc)
                                env.log("failing", path, phase)
                                raise exc

                    class InnerRoot(ac.Component):
                        def __init__(self2) -> None:
                            self2.add_component("leaf", InnerLeaf)

                    self.inner_classes = getattr(self, "inner_classes", {})
                    self.inner_classes[path] = (InnerRoot, InnerLeaf)
                    await ac.start_component(InnerRoot, {}, timeout=None)
                elif k == "subblock":
                    # the component enters and leaves a context of its own; afterwards it is again inside its ComponentContext
                    async with ac.Context():
                        await anyio.lowlevel.checkpoint()
                    env.log("subblock", path, phase)
                elif k == "subget":
                    # a lookup made in a context that the component opens for itself during start-up
                    _, tname, name, tag = st[:4]
                    env.log("get+", tag, tname, name, "subctx", False)
                    async with ac.Context():
                        try:
                            r = ac.get_resource_nowait(RT[tname], name)
                            env.log("get-", tag, lab(r), 0)
                        except ac.ResourceNotFound:
                            env.log("get!", tag, "ResourceNotFound", 0)
                            raise
                elif k == "getc":
                    # a request the component gives up on: the wait runs inside a cancel scope that the environment may cancel
                    _, tname, name, tag = st[:4]
                    ev0 = env.env_events
                    env.log("get+", tag, tname, name, "shortcut", False)
                    with anyio.CancelScope() as scope:
                        env.action(f"cancel:{tag}", scope.cancel)
                        try:
                            r = await ac.get_resource(RT[tname], name)
                            env.log("get-", tag, lab(r), env.env_events - ev0)
                        finally:
                            env.drop_action(f"cancel:{tag}")
                    if scope.cancelled_caught:
                        env.log("get-cancelled", tag)
                elif k == "addx":
                    # a publication that is expected to be refused (one of its types is taken): the component carries on
                    _, tname, name, label = st[:4]
                    v = RAB(label) if tname == "RAB" else RT[tname](label)
                    try:
                        ac.add_resource(v, name, [RA, RB] if tname == "RAB" else RT[tname])
                        env.log("added", path, phase, tname, name, label)
                    except ac.ResourceConflict:
                        env.log("add-refused", path, phase, tname, name, label)
                elif k == "td":
                    ac.add_teardown_callback(lambda l=st[1]: env.log("td", l))
                    env.log("td-reg", st[1])
                elif k == "tds":
                    # the SAME callable object is registered by every component / phase that has this step (a shared helper such as
                    # pool.release): every registration is one run; the labels are handed out last-registered-first
                    stack = env.data.setdefault("tds_stack", [])
                    shared = env.data.get("tds_fn")
                    if shared is None:
                        def shared() -> None:
                            env.log("td", stack.pop() if stack else "tds:unregistered-extra-run")

                        env.data["tds_fn"] = shared
                    stack.append(st[1])
                    ac.add_teardown_callback(shared)
                    env.log("td-reg", st[1])
                elif k == "tdaw":
                    # a teardown callback that returns an awaitable which is not a coroutine (an object with __await__)
                    class _Aw:
                        def __init__(self, coro: Any) -> None:
                            self.coro = coro

                        def __await__(self) -> Any:
                            return self.coro.__await__()

                    async def later(l: str) -> None:
                        env.log("td", l)  # (runs when the awaitable is awaited - even if that await is then cancelled)
                        await anyio.lowlevel.checkpoint()

                    ac.add_teardown_callback(lambda l=st[1]: _Aw(later(l)))
                    env.log("td-reg", st[1])
                elif k == "tdn":
                    # a teardown callback that registers one more callback while the teardown is running
                    def nesting(l: str = st[1]) -> None:
                        env.log("td", l)
                        ac.add_teardown_callback(lambda: env.log("td", l + "+nested"))
                        env.log("td-reg-late", l + "+nested")

                    ctx_now = ac.current_context()
                    ctx_now.add_teardown_callback(nesting)
                    env.log("td-reg", st[1])
                elif k == "par":
                    # several requests pending at once in one component (tasks started from its method)
                    async with anyio.create_task_group() as tg:
                        for i, sub in enumerate(st[1]):
                            tg.start_soon(self.run_steps, path, f"{phase}#{i}", sub)
                elif k == "svc":
                    await self._start_service(path, phase, st)
                elif k in ("svc-ta-raise", "svc-ta-partial"):
                    label = st[1]
                    stop_ev = anyio.Event()

                    async def service_ta(label: str = label, stop_ev: Any = stop_ev) -> None:
                        env.log("svc+", label)
                        try:
                            await stop_ev.wait()
                        except BaseException as e:
                            env.log("svc!", label, type(e).__name__)
                            raise
                        finally:
                            env.log("svc-", label)

                    async def action(label: str = label, stop_ev: Any = stop_ev) -> None:
                        env.log("svc-action", label)
                        stop_ev.set()
                        await anyio.lowlevel.checkpoint()
                        raise ConnectionError("teardown action failed after it had told the task to stop")

                    if k == "svc-ta-partial":
                        # the "given callable" is a functools.partial around an instance of a callable class (no __qualname__ anywhere)
                        import functools

                        class Stopper:
                            def __call__(self, label: str, stop_ev: Any) -> None:
                                env.log("svc-action", label)
                                stop_ev.set()

                        action = functools.partial(Stopper(), label, stop_ev)  # type: ignore[assignment]
                    await ac.start_service_task(service_ta, label.replace(":", "_"), teardown_action=action)
                    env.log("svc-started", label)
                elif k == "svc-hs":
                    await self._start_handshake_service(path, phase, st)
                elif k == "svc-none":
                    # a service task with teardown_action=None that ends by itself once a LATER-registered teardown callback tells it to
                    label = st[1]
                    stop = anyio.Event()

                    async def service_none(label: str = label, stop: Any = stop) -> None:
                        env.log("svc+", label)
                        try:
                            await stop.wait()
                            env.log("svc-flushing", label)
                            await env.gate(f"svc:{label}:flush")
                        except BaseException as e:
                            env.log("svc!", label, type(e).__name__)
                            raise
                        finally:
                            env.log("svc-", label)

                    await ac.start_service_task(service_none, label.replace(":", "_").replace(".", "_"), teardown_action=None)
                    env.log("svc-started", label)

                    def tell_stop(label: str = label, stop: Any = stop) -> None:
                        env.log("td", "stop:" + label)
                        stop.set()

                    ac.add_teardown_callback(tell_stop)
                    env.log("td-reg", "stop:" + label)
                elif k == "bad-factory":
                    # a resource factory that raises a LookupError subclass, then a lookup through it
                    def boom() -> Any:
                        exc = KeyError(f"{path}:{phase}")
                        self.raised.append(exc)
                        env.log("failing", path, phase)
                        raise exc

                    ac.add_resource_factory(boom, "boom_" + (path.replace(".", "_") or "root"), types=RB)
                    await ac.get_resource(RB, "boom_" + (path.replace(".", "_") or "root"))
                elif k == "fail":
                    env.log("failing", path, phase)
                    if st[1] == "G":
                        # the component fails with an exception group holding exactly one exception
                        exc: BaseException = ExceptionGroup(f"group {path}:{phase}", [CompFail(f"{path}:{phase}")])
                    elif st[1] == "T":
                        exc = TimeoutError(f"{path}:{phase}")  # the component's own operation timed out
                    elif st[1] == "B":
                        exc = CompBaseFail(f"{path}:{phase}")
                    else:
                        exc = (CompFail if st[1] == "E" else CompFail2)(f"{path}:{phase}")
                    self.raised.append(exc)
                    raise exc
                elif k == "addc":
                    # add_component() once the tree is being started: the hierarchy was instantiated before any prepare()/start()
                    # ran, so a child added now can only be refused (RuntimeError)
                    lpath = f"{path}.late" if path else "late"

                    class Late(ac.Component):
                        def __init__(self) -> None:
                            env.log("ctor", lpath)

                        async def prepare(self) -> None:
                            env.log("late-phase", lpath, "prepare")

                        async def start(self) -> None:
                            env.log("late-phase", lpath, "start")

                    try:
                        self.instances[path].add_component("late", Late)
                        env.log("addc-accepted", path, phase)
                    except RuntimeError:
                        env.log("addc-refused", path, phase)
                elif k == "ctxprobe":
                    self._ctxprobe(path, phase, st)
                elif k == "return":
                    env.log("phase-", path, phase)
                    return st[1]
                elif k == "raise":
                    raise CompFail(f"{path}:{phase}")
                else:
                    raise AssertionError(st)
        except BaseException as e:
            env.log("phase!", path, phase, type(e).__name__)
            raise
        env.log("phase-", path, phase)
        return None

    def _inject(self, tname: str, name: str, optional: bool) -> Any:
        from typing import Optional

        from asphalt.core import inject, resource

        key = (tname, name, optional)
        if key not in self.injected:
            T = RT[tname]

            async def f(r=resource(name)):  # type: ignore[no-untyped-def]
                return r

            f.__annotations__["r"] = Optional[T] if optional else T
            self.injected[key] = inject(f)
        return self.injected[key]

    async def _start_service(self, path: str, phase: str, st: tuple) -> None:
        import asphalt.core as ac

        env = self.env
        _, label, body = st[:3]

        async def service() -> None:
            env.log("svc+", label)
            try:
                for b in body:
                    if b[0] == "gate":
                        await env.gate(f"svc:{label}:{b[1]}")
                    elif b[0] == "crash":
                        env.log("svc-crash", label)
                        raise CompFail(f"svc {label}")
                    elif b[0] == "owntd":
                        # an asynchronous teardown callback on the task's OWN context (cancelled with the task at shutdown)
                        async def own_td(label: str = label) -> None:
                            env.log("svc-own-td+", label)
                            try:
                                await anyio.lowlevel.checkpoint()
                            finally:
                                env.log("svc-own-td-", label)

                        ac.add_teardown_callback(own_td)
                    elif b[0] == "crash-on-cancel":
                        try:
                            await anyio.Event().wait()
                        finally:
                            env.log("svc-crash", label)
                            raise CompFail(f"svc {label}")
                    elif b[0] == "forever":
                        await anyio.Event().wait()
                    elif b[0] == "get":
                        await self.run_steps(f"svc:{label}", "body", [b])
            except BaseException as e:
                env.log("svc!", label, type(e).__name__)
                raise
            finally:
                env.log("svc-", label)

        await ac.start_service_task(service, label)
        env.log("svc-started", label)

    async def _start_handshake_service(self, path: str, phase: str, st: tuple) -> None:
        """a service task that needs time (one gate) before it reports started(): start_service_task() suspends meanwhile"""
        import asphalt.core as ac

        env = self.env
        label = st[1]

        async def service(*, task_status: Any) -> None:
            env.log("svc+", label)
            try:
                await env.gate(f"svc:{label}:handshake")
                task_status.started()
                env.log("svc-up", label)
                await anyio.Event().wait()
            except BaseException as e:
                env.log("svc!", label, type(e).__name__)
                raise
            finally:
                env.log("svc-", label)

        await ac.start_service_task(service, label)
        env.log("svc-started", label)

    def _ctxprobe(self, path: str, phase: str, st: tuple) -> None:
        pass
