"""Engine self-test: determinism of replays and detection of a seeded toy bug."""
import sys

from .explore import E1Check, execute, explore_program


class Toy(E1Check):
    """Two tasks increment a shared counter with a gate between read and write: a lost update exists."""

    id = "TOY"

    async def main(self, env, program):
        import anyio

        st = {"x": 0}

        async def inc(name):
            v = st["x"]
            env.log("read", name, v)
            if program["racy"]:
                await env.gate("g" + name)
            st["x"] = v + 1
            env.log("write", name, v + 1)

        async with anyio.create_task_group() as tg:
            tg.start_soon(inc, "a")
            tg.start_soon(inc, "b")
        if st["x"] != 2:
            env.fail("lost-update", f"x={st['x']}")


def main() -> int:
    import asphalt.core  # noqa: F401  (the repository must be importable)

    toy = Toy()
    good = explore_program(toy, {"racy": False}, 1, 1000)
    bad = explore_program(toy, {"racy": True}, 1, 1000)
    r1 = execute(toy, {"racy": True}, [1])
    r2 = execute(toy, {"racy": True}, [1])
    ok = (not good["violations"]) and bad["violations"] and r1.h == r2.h and r1.trace == r2.trace and not good["errors"] and not bad["errors"]
    print("selftest", "ok" if ok else "FAILED", "executions", good["evaluations"], bad["evaluations"], "asphalt from", asphalt.core.__file__)
    return 0 if ok else 1


if __name__ == "__main__":
    sys.exit(main())
