"""Engine E1t - the trio twin of the controlled loop.

The same harness bodies (they only use anyio primitives and ``env``) run on trio with

* trio's own deterministic-scheduling switch (``trio._core._run._ALLOW_DETERMINISTIC_SCHEDULING``): every
  scheduler batch is sorted by task creation order and then handed to ``_r.shuffle`` - which the explorer owns
  (default: creation order; a deviation: the batch reversed, which is what real trio does at random),
* a ``trio.testing.MockClock`` that only the explorer advances,
* an *environment task* (a trio system task spawned from an instrument's ``before_run`` hook, so that it also
  exists inside ``run_application``'s own ``anyio.run``) that waits for ``wait_all_tasks_blocked()`` - quiescence -
  and then makes the quiescent choice: open a gate, jump the clock to the next deadline, raise an armed signal,
  fire an action.

So on trio: quiescent choices exhaustive, batch-order deviations bounded, no mid-batch injection.  This is
narrower than E1 on asyncio and the evidence says so.
"""

from __future__ import annotations

import itertools
import signal as _signal
from typing import Any, Callable

import anyio
import trio
import trio.testing
import trio._core._run as _trun

_trun._ALLOW_DETERMINISTIC_SCHEDULING = True


class TrioDeadlock(BaseException):
    pass


class _Shuffler:
    """Replacement of trio's module-level random source ``_r``."""

    def __init__(self) -> None:
        self.env: Any = None

    def shuffle(self, batch: list) -> None:
        # trio pops from the end of the batch: reverse so that creation order runs first by default
        batch.reverse()
        env = self.env
        if env is not None and len(batch) > 1 and not env.finished and env.permute_batches:
            c = env.chooser.pick("preempt", [("batch", "creation-order"), ("batch", "reversed")], env)
            if c:
                batch.reverse()
                env.log("env", "batch-reversed", len(batch))

    def random(self) -> float:
        return 1.0


_SHUFFLER = _Shuffler()
_trun._r = _SHUFFLER  # type: ignore[attr-defined]


class TrioEnv:
    """Per-execution environment, trio flavour (same interface as vloop.Env)."""

    backend = "trio"

    def __init__(self, chooser: Any, hash_mode: int = 0) -> None:
        self.chooser = chooser
        self.hash_mode = hash_mode
        self.trace: list[tuple] = []
        self.h = 0
        self.fails: list[tuple[str, str]] = []
        self.finished = False
        self.frozen = False
        self.in_loop = True
        self.offer_timers = True
        self.inject_filter: Any = None
        self.injected: set[int] = set()  # (no mid-batch injection on trio)
        self.permute_batches = True
        self.pending_signals: list[int] = []
        self.quiescent_hooks: list[Callable[[], None]] = []
        self.env_events = 0
        self.data: dict[str, Any] = {}
        self.gates: dict[str, Any] = {}
        self.actions: dict[str, Callable[[], Any]] = {}
        self._gate_seq = itertools.count(1)
        self.clock = trio.testing.MockClock()
        self.deadlocked = False
        self.steps = 0
        self.horizon = 1500
        self.loop = self  # harnesses reach actions through env.loop.actions on asyncio; keep that spelling working

    # ---- what the harness sees -----------------------------------------------------------------
    def log(self, *ev: Any) -> None:
        if self.frozen:
            return
        self.trace.append(ev)
        self.h = hash((self.h, ev))

    def fail(self, key: str, msg: str) -> None:
        if self.frozen and self.in_loop:
            return
        self.fails.append((key, msg))

    async def gate(self, label: str) -> None:
        if label in self.gates:
            label = f"{label}#{next(self._gate_seq)}"
        ev = anyio.Event()
        self.gates[label] = ev
        try:
            await ev.wait()
        finally:
            if self.gates.get(label) is ev:
                del self.gates[label]

    def choose(self, n: int, tag: str = "") -> int:
        if n <= 1:
            return 0
        return self.chooser.pick("data", [("data", tag, i) for i in range(n)], self)

    def action(self, label: str, fn: Callable[[], Any]) -> None:
        self.actions[label] = fn

    def drop_action(self, label: str) -> None:
        self.actions.pop(label, None)

    def arm_signal(self, signum: int) -> None:
        self.pending_signals.append(signum)

    def now(self) -> float:
        return self.clock.current_time()

    # ---- backend options -------------------------------------------------------------------------
    def backend_options(self) -> dict:
        return {"clock": self.clock, "instruments": [_EnvInstrument(self)]}

    # ---- the environment task ----------------------------------------------------------------------
    async def _env_task(self) -> None:
        while True:
            await trio.testing.wait_all_tasks_blocked()
            if self.finished:
                return
            self.steps += 1
            if self.steps > self.horizon:
                self.frozen = True
                raise TrioDeadlock("horizon")
            for hook in self.quiescent_hooks:
                hook()
            opts: list[tuple] = []
            for label, ev in self.gates.items():
                opts.append(("gate", label))
            nd = trio.lowlevel.current_statistics().seconds_to_next_deadline
            if nd != float("inf") and self.offer_timers:
                opts.append(("timer",))
            for s in self.pending_signals:
                # only while the application has a handler installed (the default action would kill the checker)
                if _signal.getsignal(s) not in (_signal.SIG_DFL, _signal.SIG_IGN, _signal.default_int_handler, None):
                    opts.append(("signal", s))
            for a in self.actions:
                opts.append(("action", a))
            if not opts:
                # a hook may have made something runnable; if so the next round sees it
                await trio.lowlevel.checkpoint()
                if trio.lowlevel.current_statistics().run_sync_soon_queue_size or self._someone_runnable():
                    continue
                self.frozen = True
                self.deadlocked = True
                raise TrioDeadlock("deadlock")
            i = self.chooser.pick("quiescent", opts, self) if len(opts) > 1 else 0
            o = opts[i]
            self.env_events += 1
            if o[0] == "gate":
                self.log("env", "gate", o[1])
                self.gates.pop(o[1]).set()
            elif o[0] == "timer":
                self.log("env", "timer")
                self.clock.jump(nd)
            elif o[0] == "signal":
                self.log("env", "signal", int(o[1]))
                self.pending_signals.remove(o[1])
                _signal.raise_signal(o[1])
            else:
                self.log("env", "action", o[1])
                self.actions.pop(o[1])()

    def _someone_runnable(self) -> bool:
        return False


class _EnvInstrument(trio.abc.Instrument):
    def __init__(self, env: TrioEnv) -> None:
        self.env = env

    def before_run(self) -> None:
        _SHUFFLER.env = self.env
        self.spawned = False

    def before_task_step(self, task: Any) -> None:
        # the system nursery exists once the init task has run; spawn the environment task before the main task's first step
        if not self.spawned and task.name != "<init>":
            self.spawned = True
            trio.lowlevel.spawn_system_task(self.env._env_task, name="vk environment task")

    def after_run(self) -> None:
        self.env.finished = True
        _SHUFFLER.env = None


def run_main_trio(env: TrioEnv, main: Any, *args: Any) -> Any:
    try:
        return anyio.run(main, *args, backend="trio", backend_options=env.backend_options())
    finally:
        env.finished = True
        _SHUFFLER.env = None
