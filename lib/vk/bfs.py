"""Engine E2: explicit-state breadth-first search over operation histories of real asphalt contexts.

State = the operation history that reaches it.  ``replay`` rebuilds the history on fresh real objects
(one actor task per context, default schedule on the controlled loop), applies every operation to
the implementation *and* to the reference model and compares replies, then sweeps the public API.
Successors are deduplicated by (canonical model state, canonical implementation state).
"""

from __future__ import annotations

import asyncio
import dataclasses
import enum
from typing import Any

import anyio

from .ctxuniverse import KEYS, LOOKUPS, TYPES, MCtx, Universe
from .explore import execute, new_summary, run_main_asyncio

_batches = 0
APIS = ("nowait", "async", "s_nowait", "s_async", "inj_sync", "inj_async")


# ---------------------------------------------------------------------------------------------
def canon_obj(o: Any, labels: dict[int, Any], depth: int = 0) -> Any:
    if depth > 6:
        return "..."
    if o is None or isinstance(o, (bool, int, float, str)):
        return o
    if id(o) in labels:
        return ("L", labels[id(o)])
    if isinstance(o, enum.Enum):
        return ("E", o.name)
    if isinstance(o, type):
        return ("T", o.__name__)
    if isinstance(o, dict):
        items = [(canon_obj(k, labels, depth + 1), canon_obj(v, labels, depth + 1)) for k, v in o.items()]
        return ("D", tuple(sorted(items, key=repr)))
    if isinstance(o, (list, tuple)):
        return ("S", tuple(canon_obj(x, labels, depth + 1) for x in o))
    if isinstance(o, (set, frozenset)):
        return ("U", tuple(sorted((canon_obj(x, labels, depth + 1) for x in o), key=repr)))
    if dataclasses.is_dataclass(o) and not isinstance(o, type):
        try:
            return ("C", type(o).__name__, tuple((f.name, canon_obj(getattr(o, f.name, None), labels, depth + 1)) for f in dataclasses.fields(o)))
        except Exception:  # noqa: BLE001
            return ("C", type(o).__name__)
    if callable(o):
        return ("F",)
    return ("O", type(o).__name__)


def canon_ctx(ctx: Any, labels: dict[int, Any]) -> Any:
    try:
        d = vars(ctx)
    except TypeError:
        return ("O", type(ctx).__name__)
    skip = ("_exit_stack", "_task_group", "_reset_token")
    return tuple(sorted(((k, canon_obj(v, labels, 1)) for k, v in d.items() if k not in skip), key=repr))


# ---------------------------------------------------------------------------------------------
class History:
    """Driver for one history on a fresh Universe."""

    def __init__(self, check: "CtxCheck", env: Any) -> None:
        self.check = check
        self.env = env

    async def run(self, hist: list, want_enabled: bool) -> dict:
        u = Universe(self.env, self.check.aspects)
        u.fac_body_calls_model = {}
        out: dict[str, Any] = {}
        async with anyio.create_task_group() as tg:
            u.tg = tg
            try:
                for step, op in enumerate(hist):
                    await self.apply(u, op, step)
                    if self.check.probe_every_step and step < len(hist) - 1:
                        # hand-out stability (C03): remember what every pair returned after every step
                        await self.probes(u, f"after step {step} {op}")
                # every prefix of an explored history is itself explored, so sweeping after the last step
                # sweeps every reachable state once
                where = f"after {hist[-1] if hist else 'start'}"
                self.sweep(u, where)
                await self.probes(u, where)
                out["model_key"] = tuple(m.canon() for m in u.models)
                labels: dict[int, Any] = dict(u.labels)
                for i, c in enumerate(u.ctxs):
                    if c is not None:
                        labels[id(c)] = f"c{i}"
                out["impl_key"] = tuple(canon_ctx(c, labels) if c is not None else None for c in u.ctxs)
                if want_enabled:
                    u.hist = hist
                    out["enabled"] = self.check.enabled(u)
                await self.unwind(u)
            finally:
                tg.cancel_scope.cancel()
        out["fails"] = u.fails
        return out

    def sweep(self, u: Universe, where: str) -> None:
        u.sweep(where)

    def snapshot(self, u: Universe, idx: int) -> tuple:
        ctx = u.ctxs[idx]
        out = []
        for T in TYPES.values():
            try:
                out.append(tuple(sorted((n, str(u.lab(v))) for n, v in ctx.get_resources(T).items())))
            except BaseException as e:  # noqa: BLE001
                out.append(type(e).__name__)
        out.append(len(u.events[idx]))
        return tuple(out)

    async def probes(self, u: Universe, where: str) -> None:
        """Non-mutating lookups through every API, every key, every usable context."""
        if not self.check.probe_apis:
            return
        for idx, m in enumerate(u.models):
            if u.ctxs[idx] is None or m.state not in ("open", "closing"):
                continue
            if m.state == "closing" and not u.in_teardown[idx]:
                continue
            plist = []
            for tname, name in LOOKUPS:
                key = (tname, name)
                for api in self.check.probe_apis:
                    is_async = api in ("async", "s_async", "inj_async")
                    if key in m.res:
                        pass
                    elif key in m.fac:
                        f = m.fac[key]
                        if not (f["async"] and not is_async):
                            continue  # would generate: that is a BFS operation, not a probe
                    # optional variants: where nothing matches, and where only an ASYNC factory matches a SYNC lookup (that is an
                    # AsyncResourceError with or without `optional`)
                    blocked_sync = key not in m.res and key in m.fac and m.fac[key]["async"] and not is_async
                    for optional in ((False, True) if (key not in m.res and key not in m.fac) or blocked_sync else (False,)):
                        plist.append(("get", api, tname, name, optional))
            if "s_nowait" in self.check.probe_apis or "s_async" in self.check.probe_apis or "nowait" in self.check.probe_apis:
                plist += [("list", "A"), ("list", "B")]
            exps = [u.m_apply(idx, op) for op in plist]
            gots = await u.send(idx, ("ops", plist))
            for op, got, exp in zip(plist, gots, exps):
                u.compare_reply(idx, op, got, exp)
        u.sweep(where + " (after probes)")

    async def apply(self, u: Universe, op: tuple, step: int) -> None:
        kind = op[0]
        if kind == "new":
            _, parent, implicit = op
            idx = len(u.ctxs)
            u.ctxs.append(None)
            u.models.append(MCtx(idx, u.models[parent] if parent >= 0 else None))
            u.inbox.append(asyncio.Queue())
            u.outbox.append(asyncio.Queue())
            u.events.append([])
            u.td_ran.append([])
            u.in_teardown.append(False)
            if implicit:
                await u.inbox[parent].put(("op", ("spawn", idx, parent)))
                r0 = await u.outbox[parent].get()
                assert r0 == ("ok", None), r0
            else:
                u.tg.start_soon(u._actor, idx, parent, False)
            r = await u.outbox[idx].get()
            await u.settle()
            if r[0] != "created":
                u.fail("lifecycle", f"creating a context failed: {r}")
            else:
                ctx = u.ctxs[idx]
                exp_parent = u.ctxs[parent] if parent >= 0 else None
                if ctx.parent is not exp_parent:
                    u.fail("visible", f"c{idx}.parent is {ctx.parent!r}, expected c{parent}")
        elif kind == "enter":
            _, idx, hook = op
            m = u.models[idx]
            r = await u.send(idx, ("enter", hook))
            if hook == "fault" and m.state == "inactive":
                # the entry failed: the context was never entered (it stays inactive and can be entered later)
                from .ctxuniverse import HE as _HE

                if r[0] != "enter-failed" or not isinstance(r[1], _HE):
                    u.fail("lifecycle", f"entering c{idx} while its task group cannot be created: {r}")
                m.marks = getattr(m, "marks", 0) + 1
            elif m.state == "inactive":
                if r[0] != "entered":
                    u.fail("lifecycle", f"entering inactive c{idx} failed: {r}")
                m.state = "open"
                m.hook = hook
            else:
                if r[0] != "enter-failed" or not isinstance(r[1], RuntimeError):
                    u.fail("lifecycle", f"re-entering c{idx} in state {m.state}: {r}")
        elif kind == "leave":
            _, idx, how = op
            m = u.models[idx]
            await u.inbox[idx].put(("leave", how))
            if getattr(m, "hook", False):
                r = await u.outbox[idx].get()
                await u.settle()
                if r[0] != "in-teardown":
                    u.fail("lifecycle", f"leaving c{idx}: teardown hook did not run, got {r}")
                    return
                if r[1] is not True:
                    u.fail("lifecycle", f"c{idx}.closed was {r[1]} inside a teardown callback")
                m.state = "closing"
                m.leave_how = how
                # the hook was registered first, so everything registered while open has run by now
                exp_td = list(reversed(m.teardown))
                if u.td_ran[idx] != exp_td:
                    u.fail("teardown", f"c{idx}: teardown callbacks ran {u.td_ran[idx]} before the first-registered one, model {exp_td}")
                    u.fail("unchanged", f"c{idx}: teardown callbacks ran {u.td_ran[idx]}, model {exp_td}")
                m.teardown = []
                u.td_ran[idx] = []
            else:
                m.state = "closing"
                m.leave_how = how
                await self.finish_leave(u, idx)
        elif kind == "resume":
            _, idx = op
            await u.inbox[idx].put(("resume",))
            await self.finish_leave(u, idx)
        elif kind == "op":
            _, idx, inner = op
            exp = u.m_apply(idx, inner)
            denied = exp == ("exc", "RuntimeError")
            before = self.snapshot(u, idx) if denied else None
            got = await u.send(idx, ("op", inner))
            u.compare_reply(idx, inner, got, exp)
            if denied:
                after = self.snapshot(u, idx)
                if before != after:
                    u.fail("lifecycle", f"{inner} on c{idx} in state {u.models[idx].state} was denied but changed the context: {before} -> {after}")
                if inner[0] == "add" and inner[2]:
                    u.denied_td.add("td" + inner[3])
                elif inner[0] == "addtd":
                    u.denied_td.add(inner[1])
        else:
            raise AssertionError(op)

    async def finish_leave(self, u: Universe, idx: int) -> None:
        m = u.models[idx]
        r = await u.outbox[idx].get()
        await u.settle()
        how = m.leave_how
        open_children = [c.idx for c in u.models if c.parent is m and c.state in ("open", "closing")]
        m.state = "closed"
        if r[0] != "left":
            u.fail("lifecycle", f"leaving c{idx}: {r}")
            return
        outcome, cancelled_caught = r[1], r[2]
        if open_children:
            # "reported as an error, not ignored": whatever way the block ended, the caller must be told (RuntimeError)
            if not isinstance(outcome, RuntimeError):
                u.fail("lifecycle", f"c{idx} was left ({how}) while its children {open_children} were still open; the caller saw {outcome!r} "
                                    f"instead of an error reporting that")
        elif getattr(m, "td_raises", False):
            pass
        elif how == "clean":
            if outcome is not None:
                u.fail("teardown", f"clean exit of c{idx} raised {outcome!r}")
        elif how == "exc":
            if type(outcome).__name__ != "HE":
                u.fail("teardown", f"c{idx} left with HE, caller saw {outcome!r}")
        elif how == "cancel":
            if outcome is not None:
                u.fail("teardown", f"c{idx} left by cancellation, caller saw {outcome!r}")
        exp_td = list(reversed(m.teardown))
        for lbl in u.td_ran[idx]:
            if lbl in u.denied_td:
                u.fail("lifecycle", f"c{idx}: teardown callback {lbl} ran although its registration was denied")
        if getattr(m, "td_raises", False):
            if outcome is None:
                u.fail("lifecycle", f"c{idx}: a teardown callback raised but the caller saw a clean exit")
            m.td_raises = False
        if u.td_ran[idx] != exp_td:
            u.fail("teardown", f"c{idx}: teardown callbacks ran {u.td_ran[idx]}, model {exp_td}")
            u.fail("unchanged", f"c{idx}: teardown callbacks ran {u.td_ran[idx]}, model {exp_td}")
        m.teardown = []
        u.td_ran[idx] = []

    async def unwind(self, u: Universe) -> None:
        for idx in reversed(range(len(u.models))):
            m = u.models[idx]
            if u.ctxs[idx] is None:
                continue
            if m.state == "closing":
                await self.apply(u, ("resume", idx), -1)
            elif m.state == "open":
                m.hook = False if not getattr(m, "hook", False) else m.hook
                await self.apply(u, ("leave", idx, "clean"), -1)
                if m.state == "closing":
                    await self.apply(u, ("resume", idx), -1)
        u.sweep("after unwinding")
        for idx in range(len(u.models)):
            if u.ctxs[idx] is not None:
                await u.inbox[idx].put(("stop",))


_BFS_CHECK = None


def _bfs_init(cid: str) -> None:
    global _BFS_CHECK
    import gc
    import importlib

    gc.disable()
    _BFS_CHECK = importlib.import_module(f"vk.checks.{cid.lower()}").CHECK


def _bfs_batch(arg: tuple) -> list:
    hists, want_enabled = arg
    return _BFS_CHECK._exec_batch(hists, want_enabled)


class CtxCheck:
    """Base of the E2 checks; subclasses define ``aspects``, ``enabled`` and the depth per tier."""

    id = "C00"
    engine = "E2"
    level = "model_checking"
    backends = ["asyncio (controlled loop, default schedule)"]
    aspects: set[str] = set()
    probe_apis: tuple = APIS
    probe_every_step = False
    max_ctx = 3

    def depth(self, tier: str) -> int:
        return 4 if tier == "quick" else 5

    def seeds(self, tier: str) -> list[list]:
        """Initial histories from which BFS units start (each unit explores `depth` further steps)."""
        return [[]]

    def units(self, tier: str, seed: int) -> list:
        # one BFS over all seed prefixes, with ONE global set of seen states; the runner executes this unit in the master
        # process, which parallelises every BFS level over its own worker pool (see work_main)
        return [{"_main": True, "bfs": True}]

    def max_states(self, tier: str) -> int:
        return 60000 if tier == "quick" else 600000

    # -- execution of a batch of histories in one loop run -----------------------------------------
    def run(self, env: Any, program: Any) -> None:
        run_main_asyncio(env, self._batch, env, program)

    async def _batch(self, env: Any, program: dict) -> None:
        res = []
        for hist in program["hists"]:
            res.append(await History(self, env).run(hist, program.get("want_enabled", True)))
        env.data["results"] = res

    def verdict(self, env: Any, program: Any, outcome: str) -> None:
        if outcome != "done":
            env.fail("harness", f"batch ended with {outcome}: {env.data.get('escaped_tb', '')}")

    def run_batch(self, hists: list[list], want_enabled: bool = True) -> list[dict]:
        r = execute(self, {"hists": hists, "want_enabled": want_enabled}, [])
        if r.fails:
            raise RuntimeError(f"E2 batch failed: {r.fails}")
        return r.extra.get("results") or self._last_results(r)

    def _last_results(self, r: Any) -> list[dict]:
        raise RuntimeError("no results")

    def work(self, unit: dict, tier: str) -> dict:
        return self.work_main(unit, tier)

    def work_main(self, unit: dict, tier: str, jobs: int = 16) -> dict:
        """Level-synchronous BFS from all seed prefixes with a global seen-set; each level's frontier is replayed in parallel."""
        import multiprocessing as mp
        import os

        s = new_summary()
        seen: set = set()
        depth = self.depth(tier)
        frontier: list[tuple] = [(list(sd), depth) for sd in self.seeds(tier)]
        per_level = []
        kh: dict[str, int] = {}
        cap = self.max_states(tier)
        merged = 0
        jobs = int(os.environ.get("VERIF_JOBS", "0")) or min(jobs, os.cpu_count() or 1)
        ctx = mp.get_context("fork")
        pool = ctx.Pool(jobs, initializer=_bfs_init, initargs=(self.id,)) if jobs > 1 else None
        try:
            while frontier:
                B = 48
                chunks = [frontier[i:i + B] for i in range(0, len(frontier), B)]
                args = [([h for h, _ in ch], True) for ch in chunks]
                if pool is not None:
                    outs = pool.map(_bfs_batch, args)
                else:
                    outs = [self._exec_batch(a[0], a[1]) for a in args]
                nxt: list[tuple] = []
                for ch, results in zip(chunks, outs):
                    for (hist, left), r in zip(ch, results):
                        s["evaluations"] += 1
                        s["transitions"] += 1
                        key = (r["model_key"], r["impl_key"])
                        if r["fails"]:
                            for f in {f[0] for f in r["fails"]}:
                                kh[f] = kh.get(f, 0) + 1
                            if len(s["violations"]) < 8:
                                s["violations"].append({
                                    "keys": sorted({f[0] for f in r["fails"]}), "fails": [list(f) for f in r["fails"][:5]],
                                    "program": {"history": _plain(hist)}, "choices": [], "trace": [], "outcome": "done",
                                })
                            continue  # violating states are not extended
                        if key in seen:
                            merged += 1
                            continue
                        seen.add(key)
                        if len(seen) >= cap:
                            s["capped"] = True
                        if left > 0 and not s["capped"]:
                            for op in r["enabled"]:
                                nxt.append((hist + [op], left - 1))
                        if len(s["samples"]) < 2 and len(hist) >= 5:
                            s["samples"].append({"history": _plain(hist), "model_state": repr(r["model_key"])[:600]})
                per_level.append(len(frontier))
                frontier = nxt
                if int(os.environ.get("VERIF_STOP_AFTER", "0") or 0) and s["violations"]:
                    # opt-in (tools/seedverify.py): the caller only wants to know whether anything is reported
                    s["capped"] = True
                    break
        finally:
            if pool is not None:
                pool.close()
                pool.join()
        s["states"] = len(seen)
        s["distinct"] = len(seen)
        s["nontrivial"] = len(seen)
        s["outcomes"] = {"done": s["evaluations"]}
        s["keyhist"] = kh
        s["extra"] = {"merged_into_known_state": merged, "depth": depth}
        s["frontiers"] = per_level
        return s

    def _exec_batch(self, batch: list[list], want_enabled: bool) -> list[dict]:
        from .explore import Chooser, reset_determinism
        from .vloop import Env

        global _batches
        _batches += 1
        if _batches % 6 == 0:
            import gc

            gc.collect()
        env = Env(Chooser([]), 0)
        env.horizon = 10**9
        reset_determinism(0)
        self.run(env, {"hists": batch, "want_enabled": want_enabled})
        return env.data["results"]

    def replay(self, rec: dict) -> int:
        hist = [_unplain(op) for op in rec["program"]["history"]]
        r = self._exec_batch([hist], want_enabled=False)[0]
        for i, op in enumerate(hist):
            print(f"  step {i}: {op}")
        for f in r["fails"]:
            print("FAIL", f[0], "-", f[1])
        if r["fails"]:
            print(f"VIOLATION property={self.id} replay={rec.get('_path', '')}")
            return 1
        print("no violation on this tree")
        return 0

    def enabled(self, u: Universe) -> list[tuple]:
        raise NotImplementedError


def _plain(x: Any) -> Any:
    if isinstance(x, (list, tuple)):
        return [_plain(y) for y in x]
    return x


def _unplain(x: Any) -> Any:
    if isinstance(x, list):
        return tuple(_unplain(y) for y in x)
    return x
