"""Context universe for engine E2: real asphalt contexts driven by operation histories, next to a
reference model.  Used by C02, C03, C04 (sequential part), C13 and C18.

Every context lives in its own *actor task* (so that siblings can be open at once, root contexts can
own their task group, and ``current_context()`` inside the actor is the actor's context, which is
what the module-level shortcuts and ``@inject`` consult).  The driver sends one command at a time
and lets the loop run to quiescence (default schedule, no environment choices), so a history is a
deterministic function of its operation list.

Aspects of disagreement (each check picks the ones its property owns):
  visible   - a lookup / get_resources result differs from the model's visible set        (C02)
  conflict  - wrong exception class for a taken pair; wrong success/failure                  (C03)
  unchanged - a failing add changed something observable (table, teardown, events)           (C03)
  stable    - a pair returned a different object than before                                 (C03)
  factory   - factory call counts / AsyncResourceError                                       (C04)
  generated-scope - a generated object is visible where it must not be, or the wrong generation    (C02, C04)
  lifecycle - operation allowed/denied in the wrong lifecycle state, closed flag, re-entry   (C13)
  events    - resource_added events differ from the model                                    (C18)
  teardown  - teardown callbacks run at unwinding differ from the model
"""

from __future__ import annotations

import asyncio
from typing import Any, Optional

import anyio
from anyio.lowlevel import checkpoint


class A:
    def __init__(self, label: str) -> None:
        self.label = label

    def __repr__(self) -> str:
        return self.label


class B:
    def __init__(self, label: str) -> None:
        self.label = label

    def __repr__(self) -> str:
        return self.label


class AB(A, B):
    pass


class _Types(dict):
    """name -> type.  "L" is the PEP 585 alias list[int]: a NEW object on every access - aliases compare equal but are not
    identical, which is exactly how user code spells them at different call sites."""

    def __getitem__(self, k: str) -> Any:
        if k == "L":
            return list[int]
        return dict.__getitem__(self, k)

    def items(self):  # type: ignore[override]
        return [(k, self[k]) for k in self.keys()]

    def values(self):  # type: ignore[override]
        return [self[k] for k in self.keys()]


class L0:
    def __init__(self, label: str) -> None:
        self.label = label

    def __repr__(self) -> str:
        return self.label


TYPES = _Types({"A": A, "B": B, "L": None})
# registration keys: (types, name)
KEYS = {
    "Ad": (("A",), "default"),
    "Bd": (("B",), "default"),
    "Ax": (("A",), "x"),
    "ABd": (("A", "B"), "default"),
    "BAd": (("B", "A"), "default"),
    "ABx": (("A", "B"), "x"),
    "Ld": (("L",), "default"),
    "ALd": (("A", "L"), "default"),
}
LOOKUPS = [("A", "default"), ("B", "default"), ("A", "x"), ("B", "x"), ("L", "default")]


class HE(Exception):
    pass


# ---------------------------------------------------------------------------------------------
# injected functions, built once per (type, name, optional, async)
_inj_cache: dict[tuple, Any] = {}


def injected(tname: str, name: str, optional: bool, is_async: bool):
    key = (tname, name, optional, is_async)
    if key not in _inj_cache:
        from asphalt.core import inject, resource

        T = TYPES[tname]
        ann = Optional[T] if optional else T
        if is_async:
            async def f(r=resource(name)):  # type: ignore[no-untyped-def]
                return r
        else:
            def f(r=resource(name)):  # type: ignore[no-untyped-def,misc]
                return r
        f.__annotations__["r"] = ann
        _inj_cache[key] = inject(f)
    return _inj_cache[key]


# ---------------------------------------------------------------------------------------------
class MCtx:
    """Reference model of one context."""

    def __init__(self, idx: int, parent: "MCtx | None") -> None:
        self.idx = idx
        self.parent = parent
        self.state = "inactive"
        # (T, name) -> container dict {"v": label, "types": tuple, "name": str, "gen": bool}
        self.res: dict[tuple, dict] = {}
        self.fac: dict[tuple, dict] = {}
        self.teardown: list[str] = []
        self.events: list[tuple] = []
        self.handed: dict[tuple, str] = {}
        self.fac_calls: dict[str, int] = {}
        if parent is not None:
            self.res = {k: c for k, c in parent.res.items() if not c["gen"]}
            self.fac = dict(parent.fac)

    def canon(self) -> tuple:
        return (
            self.idx, self.parent.idx if self.parent else -1, self.state,
            tuple(sorted((k, c["v"], c["gen"]) for k, c in self.res.items())),
            tuple(sorted((k, f["label"], f.get("kind", "")) for k, f in self.fac.items())),
            tuple(self.teardown), tuple(sorted(self.fac_calls.items())), getattr(self, "marks", 0),
        )


class Universe:
    def __init__(self, env: Any, aspects: set[str]) -> None:
        self.env = env
        self.aspects = aspects
        self.fails: list[tuple[str, str]] = []
        self.ctxs: list[Any] = []
        self.models: list[MCtx] = []
        self.inbox: list[asyncio.Queue] = []
        self.outbox: list[asyncio.Queue] = []
        self.events: list[list[tuple]] = []
        self.td_ran: list[list[str]] = []
        self.labels: dict[int, str] = {}
        self.nval = 0
        self.nfac = 0
        self.fac_body_calls: dict[str, int] = {}
        self.fac_invoked: dict[str, int] = {}
        self.tg: Any = None
        self.in_teardown: list[bool] = []
        self.denied_td: set[str] = set()

    # ---- helpers ---------------------------------------------------------------------------
    def fail(self, aspect: str, msg: str) -> None:
        if aspect in self.aspects:
            self.fails.append((aspect, msg))

    def lab(self, obj: Any) -> Any:
        if obj is None:
            return None
        return self.labels.get(id(obj), f"<unknown {type(obj).__name__}>")

    async def settle(self) -> None:
        for _ in range(3):
            await asyncio.sleep(0)

    # ---- actors ----------------------------------------------------------------------------
    async def _listener(self, idx: int, ctx: Any, started: asyncio.Event) -> None:
        try:
            async with ctx.resource_added.stream_events() as stream:
                started.set()
                async for ev in stream:
                    if ev.source is not ctx or ev.topic != "resource_added":
                        self.fail("events", f"event on c{idx} has source {ev.source!r} topic {ev.topic!r}")
                    self.events[idx].append(
                        (tuple(getattr(t, "__name__", "L") if t != list[int] else "L" for t in ev.resource_types), ev.resource_name, ev.resource_description,
                         ev.is_factory)
                    )
        finally:
            started.set()

    async def _short_listener(self, idx: int, ctx: Any, started: asyncio.Event) -> None:
        """A listener that subscribes BEFORE the long-lived one and leaves after the first event (what a component waiting for a
        resource does): listeners do not detach in reverse order of attaching."""
        try:
            async with ctx.resource_added.stream_events() as stream:
                started.set()
                async for ev in stream:
                    break
        finally:
            started.set()

    async def _cancelled_listener(self, idx: int, ctx: Any, started: asyncio.Event) -> None:
        """A listener that gives up: it is cancelled while it waits for its first event (its subscription must be gone afterwards)."""
        import anyio

        with anyio.CancelScope() as scope:
            async with ctx.resource_added.stream_events() as stream:
                scope.cancel()
                async for ev in stream:
                    pass
        started.set()

    async def _actor(self, idx: int, parent_idx: int, implicit: bool) -> None:
        from asphalt.core import Context

        try:
            if parent_idx >= 0 and not implicit:
                ctx = Context(self.ctxs[parent_idx])
            else:
                ctx = Context()
        except BaseException as e:  # noqa: BLE001
            await self.outbox[idx].put(("create-failed", e))
            return
        self.ctxs[idx] = ctx
        started_c = asyncio.Event()
        self.tg.start_soon(self._cancelled_listener, idx, ctx, started_c)
        await started_c.wait()
        started0 = asyncio.Event()
        self.tg.start_soon(self._short_listener, idx, ctx, started0)
        await started0.wait()
        started = asyncio.Event()
        self.tg.start_soon(self._listener, idx, ctx, started)
        await started.wait()
        await self.outbox[idx].put(("created", None))
        inbox, outbox = self.inbox[idx], self.outbox[idx]

        async def serve(until: str) -> Any:
            while True:
                cmd = await inbox.get()
                if cmd[0] == "op":
                    await outbox.put(await self._exec(idx, ctx, cmd[1]))
                elif cmd[0] == "ops":
                    await outbox.put([await self._exec(idx, ctx, o) for o in cmd[1]])
                elif cmd[0] == until or cmd[0] in ("leave", "enter", "stop", "resume"):
                    return cmd

        async def td_hook() -> None:
            # a teardown callback that lets the driver run operations while the context is closing
            self.in_teardown[idx] = True
            await outbox.put(("in-teardown", bool(ctx.closed)))
            try:
                cmd = await serve("resume")
                if cmd[0] != "resume":
                    raise RuntimeError(f"protocol: expected resume, got {cmd}")
            finally:
                self.in_teardown[idx] = False

        while True:
            cmd = await serve("enter")
            if cmd[0] == "stop":
                return
            if cmd[0] != "enter":
                await outbox.put(("protocol-error", cmd))
                continue
            hook = cmd[1]
            outcome: Any = None
            entered = False
            restore_ctg: Any = None
            if hook == "fault":
                # the one step of entering a root context that can fail: its task group cannot be created
                import asphalt.core._context as _cm

                restore_ctg = _cm.create_task_group

                def failing_ctg(*a: Any, **kw: Any) -> Any:
                    _cm.create_task_group = restore_ctg
                    raise HE("no task group")

                _cm.create_task_group = failing_ctg
            try:
                with anyio.CancelScope() as scope:
                    async with ctx:
                        entered = True
                        if hook is True:
                            ctx.add_teardown_callback(td_hook)
                        await outbox.put(("entered", None))
                        while True:
                            c2 = await serve("leave")
                            if c2[0] == "leave":
                                how = c2[1]
                                break
                            await outbox.put(("protocol-error", c2))
                        if how == "exc":
                            raise HE("block")
                        if how == "cancel":
                            scope.cancel()
                            await checkpoint()
            except BaseException as e:  # noqa: BLE001
                outcome = e
            finally:
                if restore_ctg is not None:
                    _cm.create_task_group = restore_ctg
            if not entered:
                await outbox.put(("enter-failed", outcome))
            else:
                await outbox.put(("left", outcome, scope.cancelled_caught))

    async def send(self, idx: int, cmd: tuple) -> Any:
        await self.inbox[idx].put(cmd)
        r = await self.outbox[idx].get()
        await self.settle()
        return r

    # ---- executing one API operation inside the actor of context idx ---------------------------
    async def _exec(self, idx: int, ctx: Any, op: tuple) -> tuple:
        import asphalt.core as ac

        kind = op[0]
        try:
            if kind == "add":
                _, keyname, with_td, vlabel, via = op
                types, name = KEYS[keyname]
                cls = (AB if "L" not in types else L0) if len(types) > 1 else (L0 if types[0] == "L" else TYPES[types[0]])
                val = cls(vlabel)
                self.labels[id(val)] = vlabel
                kw: dict[str, Any] = {"description": "d" + vlabel}
                if with_td:
                    def td(lbl: str = vlabel) -> None:
                        self.td_ran[idx].append("td" + lbl)

                    kw["teardown_callback"] = td
                tt = [TYPES[t] for t in types]
                target = ctx.add_resource if via == "m" else ac.add_resource
                if len(tt) == 1 and via == "m" and not with_td and types[0] != "L":
                    target(val, name, **kw)  # types omitted: registered as type(value)
                else:
                    try:
                        target(val, name, tt if len(tt) > 1 else tt[0], **kw)
                    finally:
                        # the caller re-uses its list of types afterwards: what was registered / announced must not follow it
                        tt.clear()
                        tt.append(HE)
                return ("ok", None)
            if kind == "addf":
                _, keyname, fkind, flabel, via = op
                types, name = KEYS[keyname]
                cls = (AB if "L" not in types else L0) if len(types) > 1 else (L0 if types[0] == "L" else TYPES[types[0]])

                def make() -> Any:
                    n = self.fac_body_calls.get(flabel, 0) + 1
                    self.fac_body_calls[flabel] = n
                    v = cls(f"{flabel}#{n}")
                    self.labels[id(v)] = v.label
                    return v

                if fkind == "async":
                    async def fcb() -> Any:
                        return make()
                elif fkind in ("uobj", "auobj"):
                    import dataclasses

                    @dataclasses.dataclass
                    class _Factory:
                        """a callable value object: it defines equality and is therefore NOT hashable"""

                        tag: str

                        def __call__(self) -> Any:
                            if fkind == "auobj":
                                async def _c() -> Any:
                                    return make()

                                return _c()
                            return make()

                    fcb = _Factory(flabel)
                elif fkind == "alambda":
                    async def _coro() -> Any:
                        return make()

                    def fcb() -> Any:  # an async factory that is not a coroutine function: a plain callable returning an awaitable
                        self.fac_invoked[flabel] = self.fac_invoked.get(flabel, 0) + 1
                        return _coro()
                else:
                    def fcb() -> Any:  # type: ignore[misc]
                        return make()
                tt = [TYPES[t] for t in types]
                target = ctx.add_resource_factory if via == "m" else ac.add_resource_factory
                if fkind == "annot":
                    # no `types=`: they are read from the callback's return annotation (a single class or a Union)
                    from typing import Union

                    fcb.__annotations__["return"] = Union[tuple(tt)] if len(tt) > 1 else tt[0]  # type: ignore[index]
                    target(fcb, name, description="d" + flabel)
                    return ("ok", None)
                try:
                    target(fcb, name, types=tt if len(tt) > 1 else tt[0], description="d" + flabel)
                finally:
                    tt.clear()
                    tt.append(HE)
                return ("ok", None)
            if kind == "bad":
                return self._exec_bad(idx, ctx, op)
            if kind == "get":
                _, api, tname, name, optional = op
                T = TYPES[tname]
                kw2 = {"optional": True} if optional else {}
                inv0 = sum(self.fac_invoked.values())
                if api == "nowait":
                    r = ctx.get_resource_nowait(T, name, **kw2)
                elif api == "async":
                    r = await ctx.get_resource(T, name, **kw2)
                elif api == "s_nowait":
                    r = ac.get_resource_nowait(T, name, **kw2)
                elif api == "s_async":
                    r = await ac.get_resource(T, name, **kw2)
                elif api == "inj_sync":
                    r = injected(tname, name, optional, False)()
                elif api == "inj_async":
                    r = await injected(tname, name, optional, True)()
                else:
                    raise AssertionError(api)
                if api in ("async", "s_async", "inj_async") and sum(self.fac_invoked.values()) - inv0 > 1:
                    # "the factory is called once": also a factory whose callable is cheap to call and returns the awaitable
                    self.fail("factory", f"{op} on c{idx}: one asynchronous lookup invoked the factory callable {sum(self.fac_invoked.values()) - inv0} times")
                return ("val", self.lab(r))
            if kind == "boomp":
                # a lookup through the PARENT context (not the current one) that fails inside a resource factory
                par = ctx.parent
                if par is None:
                    return ("ok", None)

                class _Boom:
                    pass

                def bad() -> Any:
                    raise HE("the factory fails")

                async def abad() -> Any:
                    await asyncio.sleep(0)
                    raise HE("the factory fails")

                self.nfac += 1
                nm = f"boom{self.nfac}"
                par.add_resource_factory(bad, nm, types=_Boom)
                par.add_resource_factory(abad, "a" + nm, types=_Boom)
                for call in (lambda: par.get_resource_nowait(_Boom, nm), lambda: par.get_resource(_Boom, "a" + nm)):
                    try:
                        r0 = call()
                        if hasattr(r0, "__await__"):
                            await r0
                    except HE:
                        pass
                return ("ok", None)
            if kind == "list":
                # get_resources() through the module-level shortcut (the actor is inside its context: it is the current one)
                _, tname = op
                got = ac.get_resources(TYPES[tname])
                return ("val", tuple(sorted((n, self.lab(v)) for n, v in got.items())))
            if kind == "addtd":
                _, lbl = op

                def td2(l: str = lbl) -> None:
                    self.td_ran[idx].append(l)

                ctx.add_teardown_callback(td2)
                return ("ok", None)
            if kind == "addtd-raise":
                def td3() -> None:
                    self.td_ran[idx].append(op[1])
                    raise HE("teardown")

                ctx.add_teardown_callback(td3)
                return ("ok", None)
            if kind == "spawn":
                _, child_idx, parent_idx = op
                self.tg.start_soon(self._actor, child_idx, parent_idx, True)
                return ("ok", None)
            if kind == "reenter":
                await ctx.__aenter__()
                return ("ok", None)
            raise AssertionError(op)
        except BaseException as e:  # noqa: BLE001
            if isinstance(e, (AssertionError, asyncio.CancelledError)):
                raise
            return ("exc", type(e).__name__)

    def _exec_bad(self, idx: int, ctx: Any, op: tuple) -> tuple:
        """Invalid-argument forms of add_resource / add_resource_factory (all must raise and change nothing)."""
        _, form, vlabel = op
        val = A(vlabel)
        self.labels[id(val)] = vlabel

        def td() -> None:
            self.td_ran[idx].append("td" + vlabel)

        try:
            if form == "none-value":
                ctx.add_resource(None, "default", A, teardown_callback=td)
            elif form == "empty-name":
                ctx.add_resource(val, "", A, teardown_callback=td)
            elif form == "space-name":
                ctx.add_resource(val, "a b", A, teardown_callback=td)
            elif form == "bad-types":
                ctx.add_resource(val, "z", 5, teardown_callback=td)  # type: ignore[arg-type]
            elif form == "bad-types-seq":
                ctx.add_resource(val, "z", [A, "abc"], teardown_callback=td)  # type: ignore[list-item]
            elif form == "bad-td":
                ctx.add_resource(val, "z", A, teardown_callback="notcallable")  # type: ignore[arg-type]
            elif form == "bad-td-multi":
                ctx.add_resource(AB(vlabel), "z", [A, B], teardown_callback=5)  # type: ignore[arg-type]
            elif form == "bad-td-zero":
                ctx.add_resource(val, "z", A, teardown_callback=0)  # type: ignore[arg-type]
            elif form == "bad-td-empty":
                ctx.add_resource(AB(vlabel), "z", [A, B], teardown_callback="")  # type: ignore[arg-type]
            elif form == "nl-name":
                ctx.add_resource(val, "z\n", A)  # a trailing newline is not part of a valid name
            elif form == "f-nl-name":
                ctx.add_resource_factory(lambda: val, "z\n", types=A)
            elif form == "f-empty-name":
                ctx.add_resource_factory(lambda: val, "", types=A)
            elif form == "f-dot-name":
                ctx.add_resource_factory(lambda: val, "a.b", types=A)
            elif form == "f-none-type":
                ctx.add_resource_factory(lambda: val, "z", types=[A, None])  # type: ignore[list-item]
            elif form == "f-no-types":
                ctx.add_resource_factory(lambda: val, "z")
            else:
                raise AssertionError(form)
        except BaseException as e:  # noqa: BLE001
            if isinstance(e, AssertionError):
                raise
            return ("exc", type(e).__name__)
        return ("ok", None)

    # ---- model side ---------------------------------------------------------------------------
    def m_apply(self, idx: int, op: tuple) -> tuple:
        """Apply ``op`` to the model of context idx; returns the expected reply.  Expected replies:
        ("ok",None) | ("val",label) | ("exc", class-name or "*" for 'some exception')."""
        m = self.models[idx]
        kind = op[0]
        usable = m.state in ("open", "closing")
        if kind in ("add", "addf", "get", "bad", "addtd"):
            via_current = (kind in ("add", "addf") and op[4] == "s") or (kind == "get" and op[1] in ("s_nowait", "s_async", "inj_sync", "inj_async"))
            if via_current and m.state not in ("open", "closing"):
                # shortcuts need a current context; the actor is not inside its context: not generated
                raise AssertionError("shortcut outside an entered context is not part of the alphabet")
        if kind == "add":
            _, keyname, with_td, vlabel, via = op
            types, name = KEYS[keyname]
            if not usable:
                return ("exc", "RuntimeError")
            if any((t, name) in m.res for t in types):
                return ("exc", "ResourceConflict")
            cont = {"v": vlabel, "types": types, "name": name, "gen": False}
            for t in types:
                m.res[(t, name)] = cont
            if with_td:
                m.teardown.append("td" + vlabel)
            m.events.append((types, name, "d" + vlabel, False))
            return ("ok", None)
        if kind == "addf":
            _, keyname, fkind, flabel, via = op
            types, name = KEYS[keyname]
            if m.state != "open":
                return ("exc", "RuntimeError")
            if any((t, name) in m.fac for t in types):
                return ("exc", "ResourceConflict")
            # ("kind" keeps states reached through differently shaped factory callables apart: they do not have the same futures)
            f = {"label": flabel, "types": types, "name": name, "async": fkind in ("async", "alambda", "auobj"), "kind": fkind}
            for t in types:
                m.fac[(t, name)] = f
            m.events.append((types, name, "d" + flabel, True))
            return ("ok", None)
        if kind == "bad":
            return ("exc", "RuntimeError" if not usable and not op[1].startswith("f-") or (op[1].startswith("f-") and m.state != "open") else "*")
        if kind == "addtd":
            if not usable:
                return ("exc", "RuntimeError")
            m.teardown.append(op[1])
            return ("ok", None)
        if kind == "reenter":
            return ("exc", "RuntimeError")
        if kind == "addtd-raise":
            if not usable:
                return ("exc", "RuntimeError")
            m.teardown.append(op[1])
            m.td_raises = True
            return ("ok", None)
        if kind == "boomp":
            m.marks = getattr(m, "marks", 0) + 1  # (kept in the canonical state: what follows such a lookup is explored in its own right)
            return ("ok", None)
        if kind == "list":
            return ("val", tuple(sorted((n, c["v"]) for (t, n), c in m.res.items() if t == op[1])))
        if kind == "get":
            _, api, tname, name, optional = op
            if not usable:
                return ("exc", "RuntimeError")
            is_async = api in ("async", "s_async", "inj_async")
            key = (tname, name)
            if key in m.res:
                return ("val", m.res[key]["v"])
            if key in m.fac:
                f = m.fac[key]
                if f["async"] and not is_async:
                    return ("exc", "AsyncResourceError")
                n = m.fac_calls.get(f["label"], 0)
                # the label counter is global per factory (the factory callback is shared by contexts)
                g = self.fac_body_calls_model.get(f["label"], 0) + 1
                self.fac_body_calls_model[f["label"]] = g
                m.fac_calls[f["label"]] = n + 1
                vlabel = f"{f['label']}#{g}"
                reg = tuple(t for t in f["types"] if (t, f["name"]) not in m.res)
                cont = {"v": vlabel, "types": reg, "name": f["name"], "gen": True}
                for t in reg:
                    m.res[(t, f["name"])] = cont
                m.events.append((("gen", f["types"], reg), name, "d" + f["label"], False))
                return ("val", vlabel)
            if optional:
                return ("val", None)
            return ("exc", "ResourceNotFound")
        raise AssertionError(op)

    fac_body_calls_model: dict[str, int]

    # ---- comparing -----------------------------------------------------------------------------
    def compare_reply(self, idx: int, op: tuple, got: tuple, exp: tuple) -> None:
        kind = op[0]
        if kind in ("boomp", "list") and got[0] == "exc":
            # (operations of the harness itself: an exception here is never filtered by the check's aspects)
            self.fails.append(("harness", f"{op} on c{idx} raised {got[1]}"))
            return
        if exp[0] == "exc":
            if got[0] != "exc":
                asp = "lifecycle" if exp[1] == "RuntimeError" else ("factory" if exp[1] == "AsyncResourceError" else ("visible" if kind == "get" else "conflict"))
                self.fail(asp, f"{op} on c{idx}: expected {exp[1]} but it returned {got}")
            elif exp[1] != "*" and got[1] != exp[1]:
                asp = "lifecycle" if "RuntimeError" in (exp[1], got[1]) else ("factory" if exp[1] == "AsyncResourceError" else ("visible" if kind == "get" else "conflict"))
                self.fail(asp, f"{op} on c{idx}: expected {exp[1]}, raised {got[1]}")
        elif got[0] == "exc":
            asp = "lifecycle" if got[1] == "RuntimeError" else ("visible" if kind == "get" else "conflict")
            if kind == "get" and got[1] == "AsyncResourceError":
                asp = "factory"
            self.fail(asp, f"{op} on c{idx}: expected {exp} but it raised {got[1]}")
        elif got != exp:
            if kind == "list":
                gen = "#" in str(got) or "#" in str(exp)
                self.fail("generated-scope" if gen else "visible", f"get_resources({op[1]}) through the shortcut on c{idx}: expected {exp[1]}, got {got[1]}")
            elif kind == "get":
                # which aspect: a generated object with the wrong generation number is a factory matter
                asp = "generated-scope" if (isinstance(exp[1], str) and "#" in exp[1]) or (isinstance(got[1], str) and "#" in str(got[1])) else "visible"
                self.fail(asp, f"{op} on c{idx}: expected {exp[1]}, got {got[1]}")
                m = self.models[idx]
            else:
                self.fail("conflict", f"{op} on c{idx}: expected {exp}, got {got}")
        if kind == "get" and got[0] == "val" and got[1] is not None:
            m = self.models[idx]
            key = (op[2], op[3])
            prev = m.handed.get(key)
            if prev is not None and prev != got[1]:
                self.fail("stable", f"c{idx}: {key} returned {prev} earlier and {got[1]} now")
            m.handed.setdefault(key, got[1])

    def sweep(self, where: str) -> None:
        for idx, ctx in enumerate(self.ctxs):
            if ctx is None:
                continue
            m = self.models[idx]
            for tname, T in TYPES.items():
                try:
                    got = {n: self.lab(v) for n, v in ctx.get_resources(T).items()}
                except BaseException as e:  # noqa: BLE001
                    if m.state in ("inactive", "closed"):
                        continue  # get_resources() on a context that is not in use is not specified: tolerate a refusal
                    got = {"<exc>": type(e).__name__}
                exp = {c["name"]: c["v"] for (t, n), c in m.res.items() if t == tname}
                if got != exp:
                    gen = any("#" in str(v) for v in list(got.values()) + list(exp.values()))
                    self.fail("generated-scope" if gen else "visible", f"{where}: get_resources({tname}) on c{idx} = {got}, model {exp}")
                    self.fail("unchanged", f"{where}: get_resources({tname}) on c{idx} = {got}, model {exp}")
            if m.state in ("open", "closing"):
                # the name "z" is only ever used by calls that must fail: nothing may be registered under it (a factory left behind by a
                # failed add_resource_factory() is invisible to get_resources(), so look it up)
                for tname in ("A", "B"):
                    for zname in ("z", "z\n"):
                        try:
                            left = ctx.get_resource_nowait(TYPES[tname], zname, optional=True)
                        except BaseException as e:  # noqa: BLE001
                            left = f"<{type(e).__name__}>"
                        if left is not None:
                            self.fail("unchanged", f"{where}: a lookup of ({tname}, {zname!r}) on c{idx} gives {left!r} although every call using that name failed")
            try:
                closed = bool(ctx.closed)
            except BaseException as e:  # noqa: BLE001
                closed = None
            if closed != (m.state in ("closing", "closed")):
                self.fail("lifecycle", f"{where}: c{idx}.closed = {closed} in model state {m.state}")
            # events
            got_ev = self.events[idx]
            exp_ev = m.events
            if not events_match(got_ev, exp_ev):
                self.fail("events", f"{where}: events on c{idx} = {got_ev}, model {exp_ev}")
                self.fail("unchanged", f"{where}: events on c{idx} = {got_ev}, model {exp_ev}")
            # factory body executions
        for lbl, n in self.fac_body_calls.items():
            if n != self.fac_body_calls_model.get(lbl, 0):
                self.fail("factory", f"{where}: factory {lbl} body ran {n} times, model {self.fac_body_calls_model.get(lbl, 0)}")
        for lbl, n in self.fac_body_calls_model.items():
            if n != self.fac_body_calls.get(lbl, 0):
                self.fail("factory", f"{where}: factory {lbl} body ran {self.fac_body_calls.get(lbl, 0)} times, model {n}")


def events_match(got: list, exp: list) -> bool:
    if len(got) != len(exp):
        return False
    for g, e in zip(got, exp):
        et = e[0]
        if et and et[0] == "gen":
            # generation: "carrying the registered types" = the types the product was actually registered under
            if g[0] != et[2]:
                return False
        elif g[0] != et:
            return False
        if g[1:] != e[1:]:
            return False
    return True
