"""Controlled asyncio event loop (engine E1).

``VLoop`` is an ``asyncio.BaseEventLoop`` without selector and without wall clock.  The only
sources of nondeterminism are *environment events* that an explorer-owned chooser decides:

* ``run``      - execute the head of asyncio's FIFO ready queue (what the real loop does),
* ``gate g``   - complete pending wait *g* (like an I/O completion),
* ``timer``    - advance the virtual clock to the earliest pending deadline and fire it,
* ``signal s`` - deliver a virtual POSIX signal to the handler installed with add_signal_handler,
* ``action a`` - fire a registered one-shot environment action (cancel a scope, a task ...).

The ready queue is never reordered.  Everything else here is bookkeeping for the explorer:
choice points, the trace, quiescence hooks, drain mode after the main coroutine has finished.
"""

from __future__ import annotations

import asyncio
import heapq
import itertools
from asyncio import tasks
from typing import Any, Callable

HORIZON = 1500  # loop iterations per execution: clean executions need < 100 (measured maximum of the quick tiers: 77); a runaway one is cut off quickly


class Deadlock(BaseException):
    """No enabled option although the main coroutine has not finished."""


class HorizonExceeded(BaseException):
    """The execution did not end within HORIZON loop iterations."""


class ReplayDivergence(BaseException):
    """A replayed choice does not fit the options offered (harness nondeterminism)."""


class DetTask(tasks._PyTask):  # type: ignore[name-defined,misc]
    """asyncio task whose hash is a per-execution sequence number (set order is then a function of
    creation order, not of memory addresses)."""

    def __init__(self, coro, *, loop=None, name=None, context=None, eager_start=False):
        self._vseq = loop._next_hash()
        super().__init__(coro, loop=loop, name=name, context=context)

    def __hash__(self) -> int:
        return self._vseq

    def __eq__(self, other: object) -> bool:
        return self is other


class VLoop(asyncio.BaseEventLoop):
    def __init__(self, env: "Env") -> None:
        super().__init__()
        self.env = env
        self._vtime = 0.0
        self._hash_seq = itertools.count(1)
        self.gates: dict[str, asyncio.Future] = {}
        self.sig_handlers: dict[int, tuple] = {}
        self.actions: dict[str, Callable[[], Any]] = {}
        self.steps = 0
        self.ruc_calls = 0
        self.draining = False
        self.set_task_factory(lambda loop, coro, **kw: DetTask(coro, loop=loop, **kw))

    # -- determinism helpers -------------------------------------------------------------------
    def _next_hash(self) -> int:
        n = next(self._hash_seq)
        return (1 << 20) - n if self.env.hash_mode else n

    # -- BaseEventLoop plumbing ----------------------------------------------------------------
    def time(self) -> float:
        return self._vtime

    def _process_events(self, event_list) -> None:  # pragma: no cover
        pass

    def _write_to_self(self) -> None:
        pass

    def add_signal_handler(self, sig, callback, *args) -> None:
        self.sig_handlers[sig] = (callback, args)

    def remove_signal_handler(self, sig) -> bool:
        return self.sig_handlers.pop(sig, None) is not None

    def run_until_complete(self, future):
        self.ruc_calls += 1
        if self.ruc_calls > 1:
            self.draining = True
        try:
            return super().run_until_complete(future)
        finally:
            self.draining = True
            self.env.finished = True

    # -- the scheduler ---------------------------------------------------------------------------
    def _pop_cancelled_timers(self) -> None:
        while self._scheduled and self._scheduled[0]._cancelled:
            h = heapq.heappop(self._scheduled)
            h._scheduled = False

    def _fire_timer(self) -> None:
        h = heapq.heappop(self._scheduled)
        h._scheduled = False
        self._vtime = max(self._vtime, h._when)
        self._ready.append(h)

    def _run_ready_head(self) -> None:
        h = self._ready.popleft()
        if not h._cancelled:
            h._run()
        h = None

    def _run_once(self) -> None:
        self.steps += 1
        if self.steps > self.env.horizon:
            self.env.frozen = True
            raise HorizonExceeded()
        self._pop_cancelled_timers()
        env = self.env
        if self.draining or env.finished:
            # after the main coroutine: no more environment choices, just let things unwind
            if self._ready:
                self._run_ready_head()
            elif self._scheduled:
                self._fire_timer()
            else:
                raise Deadlock()
            return

        opts: list[tuple] = []
        ready = bool(self._ready)
        if ready:
            opts.append(("run",))
        else:
            for hook in env.quiescent_hooks:
                hook()
            if self._ready:  # a hook scheduled something (it should not), keep FIFO semantics
                ready = True
                opts.append(("run",))
        for label, fut in self.gates.items():
            if not fut.done():
                opts.append(("gate", label))
        if self._scheduled and env.offer_timers:
            opts.append(("timer",))
        for s in env.pending_signals:
            if s in self.sig_handlers:
                opts.append(("signal", s))
        for a in self.actions:
            opts.append(("action", a))
        if not opts:
            # nothing can happen any more (timers that the harness never offers count as waiting forever);
            # freeze the trace: what the clean-up of the runner does afterwards is not an observation
            env.frozen = True
            raise Deadlock()
        if len(opts) > 1:
            if ready:
                i = env.chooser.pick("preempt", opts, env)
            else:
                i = env.chooser.pick("quiescent", opts, env)
        else:
            i = 0
        o = opts[i]
        kind = o[0]
        if kind == "run":
            self._run_ready_head()
            return
        env.env_events += 1
        if ready:
            env.injected.add(len(env.trace))  # trace index of an environment event injected at a non-quiescent point
        if kind == "gate":
            env.log("env", "gate", o[1])
            self.gates.pop(o[1]).set_result(None)
        elif kind == "timer":
            env.log("env", "timer")
            self._fire_timer()
        elif kind == "signal":
            env.log("env", "signal", int(o[1]))
            env.pending_signals.remove(o[1])
            cb, args = self.sig_handlers[o[1]]
            self.call_soon(cb, *args)
        elif kind == "action":
            env.log("env", "action", o[1])
            self.call_soon(self.actions.pop(o[1]))


class Env:
    """Per-execution environment handed to harness bodies (asyncio flavour)."""

    backend = "asyncio"

    def __init__(self, chooser, hash_mode: int = 0) -> None:
        self.chooser = chooser
        self.hash_mode = hash_mode
        self.trace: list[tuple] = []
        self.h = 0
        self.fails: list[tuple[str, str]] = []
        self.finished = False
        self.offer_timers = True
        self.horizon = HORIZON
        self.frozen = False
        self.in_loop = True
        self.inject_filter = None
        self.injected: set[int] = set()
        self.pending_signals: list[int] = []
        self.quiescent_hooks: list[Callable[[], None]] = []
        self.env_events = 0
        self.loop: VLoop | None = None
        self._gate_seq = itertools.count(1)
        self.data: dict[str, Any] = {}

    # loop factory handed to anyio.run / run_application
    def loop_factory(self) -> VLoop:
        self.loop = VLoop(self)
        return self.loop

    def backend_options(self) -> dict:
        return {"loop_factory": self.loop_factory}

    @property
    def actions(self) -> dict:
        assert self.loop is not None
        return self.loop.actions

    def log(self, *ev: Any) -> None:
        if self.frozen:
            return
        self.trace.append(ev)
        self.h = hash((self.h, ev))

    def fail(self, key: str, msg: str) -> None:
        if self.frozen and self.in_loop:
            return
        self.fails.append((key, msg))

    async def gate(self, label: str) -> None:
        loop = self.loop
        assert loop is not None
        if label in loop.gates:
            label = f"{label}#{next(self._gate_seq)}"
        fut = loop.create_future()
        loop.gates[label] = fut

        def _done(f, label=label):
            if loop.gates.get(label) is f:
                del loop.gates[label]

        fut.add_done_callback(_done)
        try:
            await fut
        finally:
            if loop.gates.get(label) is fut:
                del loop.gates[label]

    def choose(self, n: int, tag: str = "") -> int:
        if n <= 1:
            return 0
        return self.chooser.pick("data", [("data", tag, i) for i in range(n)], self)

    def action(self, label: str, fn: Callable[[], Any]) -> None:
        assert self.loop is not None
        self.loop.actions[label] = fn

    def drop_action(self, label: str) -> None:
        assert self.loop is not None
        self.loop.actions.pop(label, None)

    def arm_signal(self, signum: int) -> None:
        self.pending_signals.append(signum)

    def now(self) -> float:
        assert self.loop is not None
        return self.loop.time()
