"""C06 - waiting for a resource during start-up has no lost or false wake-ups (engine E1)."""

from __future__ import annotations

import itertools
from typing import Any

from ..comptree import RA, RB, Tree, lab
from ..explore import E1Check

WANT = ("RA", "n")

# publication menu: (id, matches?, step builder given (label))
MENU = {
    "M-res": (True, lambda l: ("add", "RA", "n", l)),
    "M-fsync": (True, lambda l: ("addf", "RA", "n", l, "sync")),
    "M-fasync": (True, lambda l: ("addf", "RA", "n", l, "async")),
    "M-multi": (True, lambda l: ("add", "RAB", "n", l)),
    "M-falsy": (True, lambda l: ("add", "RAF", "n", l)),
    "N-type": (False, lambda l: ("add", "RB", "n", l)),
    "N-name": (False, lambda l: ("add", "RA", "other", l)),
    "N-ftype": (False, lambda l: ("addf", "RB", "n", l, "sync")),
    "N-fname": (False, lambda l: ("addf", "RA", "other", l, "async")),
    "N-private": (False, lambda l: ("add", "RA", "n", l, False, "private")),
    "N-fprivate": (False, lambda l: ("addf", "RA", "n", l, "private")),  # a factory registered (and used) in a private sub-context
}


def pub_sequences(tier: str) -> list[tuple]:
    ms = [k for k, v in MENU.items() if v[0]]
    ns = [k for k, v in MENU.items() if not v[0] and k not in ("N-private", "N-fprivate")]
    seqs: list[tuple] = [(m,) for m in ms] + [(n,) for n in ns]
    for m in ms:
        for n in ns:
            seqs.append((n, m))
            seqs.append((m, n))
    seqs += list(itertools.permutations(ns[:3], 2)) if tier == "thorough" else [("N-type", "N-name")]
    if tier == "thorough":
        for m in ms[:2]:
            for n1, n2 in itertools.permutations(ns, 2):
                seqs.append((n1, n2, m))
    else:
        seqs.append(("N-type", "N-name", "M-res"))
        seqs.append(("N-ftype", "N-fname", "M-fasync"))
    seqs += [("N-private",), ("N-private", "M-res"), ("N-private", "M-fasync"), ("N-fprivate",), ("N-fprivate", "M-res"), ("N-fprivate", "N-type")]
    return [q for q in seqs if not ("M-multi" in q and "N-type" in q)]


class C06(E1Check):
    id = "C06"
    backends = ["asyncio", "trio (quiescent choices + batch reversal)"]
    assumptions = [
        "one or two waiters, one publisher (plus optional second publisher), 1-3 publications each, wanted pair (RA, 'n')",
        "start_component(timeout=None); a program without a matching publication is expected to wait forever (dead-lock is its correct outcome)",
        "'as soon as' = by the next quiescent point of the event loop; 'immediately' = no environment event consumed between call and return",
    ]

    def rule(self, tier: str) -> str:
        return ("program = waiter(s) (phase, API, gate before request) x publisher (alias, phase, publication sequence from a menu of 4 matching "
                "and 4 non-matching kinds, gate before each) x child order; executions = all gate completion orders + every single (quick) / "
                "double (thorough) preemptive injection; non-trivial = >=2 environment events or an injection; distinct = distinct traces")

    def bounds(self, tier: str) -> dict:
        return {"deviation_bound": 1 if tier == "quick" else 2, "menu": list(MENU)}

    def bound(self, tier: str, program: Any) -> int:
        if tier == "quick":
            return 1
        return 2 if program.get("small") else 1

    def max_execs(self, tier: str, program: Any) -> int:
        return 4000 if tier == "quick" else 100000

    def hash_modes(self, tier: str, program: Any) -> tuple:
        # thorough: both iteration orders of the task sets that anyio walks when it delivers a cancellation
        return (0,) if tier == "quick" else (0, 1)

    def backends_for(self, tier: str, program: Any) -> tuple:
        if tier == "quick" and not (program.get("small") or program["kind"] in ("multi", "burst", "two")):
            return ("asyncio",)
        return ("asyncio", "trio")

    def units(self, tier: str, seed: int) -> list:
        progs = []
        apis = ("method", "shortcut", "inject")
        for seq in pub_sequences(tier):
            for wphase in ("prepare", "start"):
                for pphase in ("prepare", "start"):
                    for gates in itertools.product((False, True), repeat=len(seq) + 1):
                        if tier == "quick" and len(seq) >= 2 and sum(gates) not in (0, len(seq) + 1, 1):
                            continue
                        for order in ("wp", "pw"):
                            api = apis[(len(progs)) % 3] if tier == "quick" else None
                            for a in ((api,) if api else apis):
                                progs.append({"kind": "basic", "seq": list(seq), "wphase": wphase, "pphase": pphase, "wgate": gates[0],
                                              "pgates": list(gates[1:]), "order": order, "api": a, "small": len(seq) == 1})
        # default-name remapping through a kind/name alias
        for where in ("start", "prepare"):
            for wphase in ("prepare", "start"):
                for gates in itertools.product((False, True), repeat=2):
                    for order in ("wp", "pw"):
                        progs.append({"kind": "alias", "where": where, "wphase": wphase, "wgate": gates[0], "pgates": [gates[1]], "order": order,
                                      "api": "shortcut", "small": True})
        # two waiters, one publisher / controls
        for seq in (("M-res",), ("N-type", "M-fasync"), ("M-multi", "N-name")):
            for gates in itertools.product((False, True), repeat=3):
                for order in ("wwp", "wpw", "pww"):
                    progs.append({"kind": "two", "seq": list(seq), "gates": list(gates), "order": order, "small": False})
        for order in ("wp", "pw"):
            for pubs in (("b", "a"), ("a", "b")):
                for gates in itertools.product((False, True), repeat=3):
                    for api in (("method", "shortcut"), ("inject", "method")):
                        progs.append({"kind": "multi", "order": order, "pubs": list(pubs), "gates": list(gates), "apis": list(api), "small": False})
        # the awaited type is a generic alias (equal but not identical at the two call sites)
        for order in ("wp", "pw"):
            for wg, pg in ((False, False), (False, True), (True, False)):
                for api in ("method", "shortcut", "inject"):
                    progs.append({"kind": "generic", "order": order, "wgate": wg, "pgate": pg, "api": api, "small": True})
        # an unrelated subscriber of the surrounding context's resource_added signal with a full queue, subscribed first
        for order in ("wp", "pw"):
            for n_noise in (0, 2):
                progs.append({"kind": "audit", "order": order, "noise": n_noise, "small": True})
        # two tolerant waiters and an async factory whose first call fails (behind a gate) while the other waiter is parked on it
        for order in ("wwp", "pww", "wpw"):
            for g in (False, True):
                progs.append({"kind": "flaky", "order": order, "pgate": g, "small": False})
        # a long burst of non-matching publications ahead of the matching one while the waiter is parked
        for n in (3, 60):
            for order in ("wp", "pw"):
                progs.append({"kind": "burst", "n": n, "order": order, "small": False})
        # a kind/name component starts a sub-tree from inside its start(); what the sub-tree publishes under the default name stays "default"
        for order in ("wp", "pw"):
            for wg, pg in ((False, False), (False, True), (True, False)):
                progs.append({"kind": "nested-host", "order": order, "wgate": wg, "pgate": pg, "small": True})
        # the waiter first enters and leaves a context of its own, then asks: it still waits like any component
        for order in ("wp", "pw"):
            for wg, pg in ((False, False), (False, True), (True, True)):
                for api in ("method", "shortcut", "inject"):
                    progs.append({"kind": "after-subblock", "order": order, "wgate": wg, "pgate": pg, "api": api, "small": True})
        # a plain-alias component nested below a kind/name component publishes under the default name: it stays "default"
        for order in ("wp", "pw"):
            for wg, pg in ((False, False), (False, True), (True, False)):
                progs.append({"kind": "alias-nested", "order": order, "wgate": wg, "pgate": pg, "small": True})
        # one component gives up waiting (its wait is cancelled) before the publication; another one keeps waiting
        for order in ("cwp", "wcp", "pcw", "cpw", "wpc"):
            for wg in (False, True):
                progs.append({"kind": "giveup", "order": order, "wgate": wg, "small": True})
        # a two-type publication that is refused because its second type is taken, then published under the free type only
        for order in ("wp", "pw"):
            for pg in (False, True):
                progs.append({"kind": "refused", "order": order, "pgate": pg, "small": True})
        for optional_from in ("component-optional", "outer", "service"):
            for seq in (("M-res",), ("N-type",)):
                for g in (False, True):
                    progs.append({"kind": "control", "ctl": optional_from, "seq": list(seq), "pgate": g, "small": True})
        return progs

    # ------------------------------------------------------------------------------------------
    def build(self, p: dict) -> dict:
        def pub_steps(seq: list, pgates: list, tag: str) -> list:
            steps: list = []
            for i, (item, g) in enumerate(zip(seq, pgates + [False] * len(seq))):
                if g:
                    steps.append(("gate", f"p{i}"))
                steps.append(MENU[item][1](f"{tag}{i}:{item}"))
            return steps

        def waiter(alias: str, phase: str, gate: bool, api: str, optional: bool = False) -> dict:
            steps: list = []
            if gate:
                steps.append(("gate", "w"))
            steps.append(("get", WANT[0], WANT[1], api, optional, alias))
            nd = {"alias": alias, "children": [], "prepare": None, "start": None}
            nd[phase] = steps
            return nd

        kind = p["kind"]
        if kind == "basic":
            w = waiter("w", p["wphase"], p["wgate"], p["api"])
            pub = {"alias": "p", "children": [], "prepare": None, "start": None}
            pub[p["pphase"]] = pub_steps(p["seq"], p["pgates"], "p")
            kids = [w, pub] if p["order"] == "wp" else [pub, w]
        elif kind == "alias":
            w = waiter("w", p["wphase"], p["wgate"], p["api"])
            pub = {"alias": "k/n", "children": [], "prepare": None, "start": None}
            steps = ([("gate", "p0")] if p["pgates"][0] else []) + [("add", "RA", "default", "alias-pub")]
            pub[p["where"]] = steps
            if p["where"] == "prepare":
                # not remapped: lands under "default"; a later matching publication releases the waiter
                pub["start"] = [("add", "RA", "n", "late-match")] if False else None
            kids = [w, pub] if p["order"] == "wp" else [pub, w]
        elif kind == "generic":
            w = {"alias": "w", "children": [], "prepare": None,
                 "start": ([("gate", "w")] if p["wgate"] else []) + [("get", "RG", "n", p["api"], False, "w")]}
            pub = {"alias": "p", "children": [], "prepare": None,
                   "start": ([("gate", "p0")] if p["pgate"] else []) + [("add", "RG", "n", "generic-pub")]}
            kids = [w, pub] if p["order"] == "wp" else [pub, w]
        elif kind == "audit":
            w = waiter("w", "start", False, "shortcut")
            steps3: list = [("gate", "p")] + [("add", "RB", f"noise{i}", f"noise{i}") for i in range(p["noise"])] + [("add", "RA", "n", "wanted")]
            pub = {"alias": "p", "children": [], "prepare": None, "start": steps3}
            kids = [w, pub] if p["order"] == "wp" else [pub, w]
        elif kind == "flaky":
            def tol(alias: str) -> dict:
                return {"alias": alias, "children": [], "prepare": None,
                        "start": [("get", "RA", "n", "shortcut", False, alias, "tolerate")]}

            pub = {"alias": "p", "children": [], "prepare": None,
                   "start": ([("gate", "p")] if p["pgate"] else []) + [("addf", "RA", "n", "flaky", "aflaky")]}
            ws = iter([tol("w1"), tol("w2")])
            kids = [next(ws) if ch == "w" else pub for ch in p["order"]]
        elif kind == "burst":
            w = waiter("w", "start", False, "shortcut")
            steps2: list = [("gate", "p")]
            for i in range(p["n"]):
                steps2.append(("add", "RB", f"other{i}", f"noise{i}"))
            steps2.append(("add", "RA", "n", "wanted"))
            pub = {"alias": "p", "children": [], "prepare": None, "start": steps2}
            kids = [w, pub] if p["order"] == "wp" else [pub, w]
        elif kind == "nested-host":
            w = {"alias": "w", "children": [], "prepare": None,
                 "start": ([("gate", "w")] if p["wgate"] else []) + [("get", "RA", "default", "shortcut", False, "w")]}
            pub = {"alias": "h/special", "children": [], "prepare": None,
                   "start": ([("gate", "p0")] if p["pgate"] else []) + [("nested-pub", "RA", "default", "nested-pub")]}
            kids = [w, pub] if p["order"] == "wp" else [pub, w]
        elif kind == "after-subblock":
            w = {"alias": "w", "children": [], "prepare": None,
                 "start": ([("gate", "w")] if p["wgate"] else []) + [("subblock",), ("get", "RA", "n", p["api"], False, "w")]}
            pub = {"alias": "p", "children": [], "prepare": None,
                   "start": ([("gate", "p0")] if p["pgate"] else []) + [("add", "RA", "n", "wanted")]}
            kids = [w, pub] if p["order"] == "wp" else [pub, w]
        elif kind == "alias-nested":
            w = {"alias": "w", "children": [], "prepare": None,
                 "start": ([("gate", "w")] if p["wgate"] else []) + [("get", "RA", "default", "shortcut", False, "w")]}
            inner = {"alias": "c", "children": [], "prepare": None,
                     "start": ([("gate", "p0")] if p["pgate"] else []) + [("add", "RA", "default", "nested-pub")]}
            pub = {"alias": "k/n", "children": [inner], "prepare": None, "start": None}
            kids = [w, pub] if p["order"] == "wp" else [pub, w]
        elif kind == "giveup":
            wc = {"alias": "c", "children": [], "prepare": None, "start": [("getc", "RA", "n", "c")]}
            w = waiter("w", "start", p["wgate"], "shortcut")
            pub = {"alias": "p", "children": [], "prepare": None, "start": [("gate", "p"), ("add", "RA", "n", "wanted")]}
            kids = [{"c": wc, "w": w, "p": pub}[ch] for ch in p["order"]]
        elif kind == "refused":
            w = waiter("w", "start", False, "shortcut")
            pub = {"alias": "p", "children": [], "prepare": None,
                   "start": [("add", "RB", "n", "taken")] + ([("gate", "p")] if p["pgate"] else []) + [("addx", "RAB", "n", "both"), ("add", "RA", "n", "fallback")]}
            kids = [w, pub] if p["order"] == "wp" else [pub, w]
        elif kind == "multi":
            # one component with two requests for different pairs pending at once; published in the given order
            w = {"alias": "w", "children": [], "prepare": None,
                 "start": [("par", [([("gate", "wa")] if p["gates"][0] else []) + [("get", "RA", "n", p["apis"][0], False, "wa")],
                                    ([("gate", "wb")] if p["gates"][1] else []) + [("get", "RB", "m", p["apis"][1], False, "wb")]])]}
            steps: list = [("gate", "p")] if p["gates"][2] else []
            for which in p["pubs"]:
                steps.append(("add", "RA", "n", "pub-a") if which == "a" else ("add", "RB", "m", "pub-b"))
                steps.append(("gate", "between")) if which == p["pubs"][0] else None
            pub = {"alias": "p", "children": [], "prepare": None, "start": [x for x in steps if x]}
            kids = [w, pub] if p["order"] == "wp" else [pub, w]
        elif kind == "two":
            w1 = waiter("w1", "prepare", p["gates"][0], "method")
            w2 = waiter("w2", "start", p["gates"][1], "inject")
            pub = {"alias": "p", "children": [], "prepare": None, "start": pub_steps(p["seq"], [p["gates"][2]] + [False] * 3, "p")}
            m = {"w": iter([w1, w2])}
            kids = [next(m["w"]) if ch == "w" else pub for ch in p["order"]]
        else:
            ctl = p["ctl"]
            pub = {"alias": "p", "children": [], "prepare": None, "start": pub_steps(p["seq"], [p["pgate"]], "p")}
            if ctl == "component-optional":
                w = waiter("w", "start", False, "shortcut", optional=True)
                kids = [w, pub]
            elif ctl == "service":
                w = {"alias": "w", "children": [], "prepare": None,
                     "start": [("svc", "s", [("get", WANT[0], WANT[1], "shortcut", False, "svc", "tolerate")])]}
                kids = [w, pub]
            else:
                kids = [pub]
        return {"alias": "", "children": kids, "prepare": None, "start": None}

    def has_match(self, p: dict) -> bool:
        if p["kind"] in ("multi", "burst", "flaky", "generic", "audit", "giveup", "refused", "alias-nested", "after-subblock", "nested-host"):
            return True
        if p["kind"] == "alias":
            return p["where"] == "start"
        return any(MENU[i][0] for i in p["seq"])

    def deadlock_ok(self, program: Any) -> bool:
        return program["kind"] in ("basic", "alias", "two", "multi", "burst", "flaky", "generic", "audit", "giveup", "refused", "alias-nested", "after-subblock", "nested-host") and not self.has_match(program)

    async def main(self, env: Any, program: dict) -> None:
        from asphalt.core import Context, ResourceNotFound, start_component

        tree = Tree(env, self.build(program))
        env.data["tree"] = tree
        env.data["kind"] = program["kind"]
        env.quiescent_hooks.append(lambda: self.at_quiescence(env))
        async with Context() as ctx:
            if program["kind"] == "control" and program["ctl"] == "outer":
                import anyio

                async def outer_req() -> None:
                    ev0 = env.env_events
                    env.log("get+", "outer", WANT[0], WANT[1], "ctx", False)
                    try:
                        r = await ctx.get_resource(RA, "n")
                        env.log("get-", "outer", lab(r), env.env_events - ev0)
                    except ResourceNotFound:
                        env.log("get!", "outer", "ResourceNotFound", env.env_events - ev0)

                async with anyio.create_task_group() as tg:
                    tg.start_soon(outer_req)
                    try:
                        await start_component(tree.root_class, {}, timeout=None)
                    except BaseException as e:  # noqa: BLE001
                        env.log("start-exc", type(e).__name__, str(e)[:200])
            elif program["kind"] == "audit":
                import warnings

                # somebody else listens to the surrounding context with a one-slot queue and never reads
                async with ctx.resource_added.stream_events(max_queue_size=1):
                    ctx.add_resource(RB("filler"), "filler")
                    with warnings.catch_warnings():
                        warnings.simplefilter("ignore")
                        try:
                            await start_component(tree.root_class, {}, timeout=None)
                            env.log("returned")
                        except BaseException as e:  # noqa: BLE001
                            env.log("start-exc", type(e).__name__, str(e)[:200])
            else:
                try:
                    await start_component(tree.root_class, {}, timeout=None)
                    env.log("returned")
                except BaseException as e:  # noqa: BLE001
                    env.log("start-exc", type(e).__name__, str(e)[:200])
            env.log("leaving")

    # ---- oracle --------------------------------------------------------------------------------
    @staticmethod
    def match_label(ev: tuple, want: tuple = WANT) -> str | None:
        """label the waiter for ``want`` must receive if this publication event matches it"""
        wt, wn = want
        covers = {"RA": ("RA", "RAB", "RAF"), "RB": ("RB", "RAB"), "RG": ("RG",)}[wt]
        if ev[0] == "added" and ev[5] == "alias-pub":
            return ev[5] if (ev[2] == "start" and wn == "n" and wt == "RA") else None
        if ev[0] == "added" and ev[4] == wn and ev[3] in covers:
            return ev[5]
        if ev[0] == "addedf" and ev[4] == wn and ev[3] in covers:
            return ev[5] + "#1"
        return None

    def at_quiescence(self, env: Any) -> None:
        if env.data.get("q-failed") or env.data.get("kind") == "flaky":
            return  # (in the flaky-factory programs a released waiter is legitimately parked inside the factory call)
        issued: dict[str, tuple] = {}
        done: set[str] = set()
        pubs = []
        for i, ev in enumerate(env.trace):
            if ev[0] in ("added", "addedf"):
                pubs.append((i, ev))
            elif ev[0] == "get+" and not ev[5]:
                issued[ev[1]] = (ev[2], ev[3])
            elif ev[0] in ("get-", "get!", "get-cancelled"):
                done.add(ev[1])
        for w, want in issued.items():
            if w in done or w in ("outer", "svc"):
                continue
            m = next((i for i, ev in pubs if self.match_label(ev, want) is not None), None)
            if m is not None:
                env.data["q-failed"] = True
                env.fail("lost-wakeup", f"a publication matching {want} happened (trace index {m}) but waiter {w} had not returned at the next quiescent point")
                return

    def verdict(self, env: Any, program: Any, outcome: str) -> None:
        super().verdict(env, program, outcome)
        tr = env.trace
        fail = env.fail
        kind = program["kind"]
        if kind == "flaky":
            # every waiter is released by the factory's publication: one sees the factory's own failure, the other one
            # produces the resource itself; nobody hangs
            ends = {ev[1]: ev for ev in tr if ev[0] in ("get-", "get!")}
            for w in ("w1", "w2"):
                if w not in ends:
                    fail("lost-wakeup", f"waiter {w} never returned although the matching factory had been published (outcome {outcome})")
                elif ends[w][0] == "get!" and ends[w][2] != "FlakyError":
                    fail("false-failure", f"waiter {w} failed with {ends[w][2]}")
            got = [ev[2] for ev in ends.values() if ev[0] == "get-"]
            if any(g != "flaky#2" for g in got) or len(got) > 2:
                fail("wrong-object", f"waiters returned {got}, the factory's (second, successful) product is flaky#2")
            if not any(ev[0] == "returned" for ev in tr):
                fail("lost-wakeup", f"start_component never returned (outcome {outcome})")
            return
        def first_match(want: tuple) -> tuple:
            for i, ev in enumerate(tr):
                if ev[0] in ("added", "addedf"):
                    ml = self.match_label(ev, want)
                    if ml is not None:
                        return i, ml
            return None, None

        for ev in tr:
            if ev[0] == "start-exc":
                fail("start-failed", f"start_component raised {ev[1]}: {ev[2]}")
        for i, ev in enumerate(tr):
            if ev[0] == "get-":
                who, got, consumed = ev[1], ev[2], ev[3]
                gp = next(e for e in tr if e[0] == "get+" and e[1] == who)
                optional = gp[5]
                match_idx, match_lab = first_match((gp[2], gp[3]))
                if who in ("outer", "svc") or optional:
                    # never waits
                    if consumed != 0:
                        fail("waited", f"{who} (optional={optional}) consumed {consumed} environment events before returning")
                    if match_idx is None or match_idx > i:
                        if got is not None and not optional:
                            fail("false-wakeup", f"{who} returned {got} without a matching publication")
                        if optional and got is not None:
                            fail("false-wakeup", f"optional request returned {got} before any matching publication")
                    elif got != match_lab and not (optional and got is None):
                        fail("wrong-object", f"{who} returned {got}, published {match_lab}")
                    continue
                if match_idx is None or match_idx > i:
                    fail("false-wakeup", f"waiter {who} returned {got} at trace index {i} before any matching publication")
                elif got != match_lab:
                    fail("wrong-object", f"waiter {who} returned {got}, the matching publication was {match_lab}")
            elif ev[0] == "get!":
                who, consumed = ev[1], ev[3]
                gp = next(e for e in tr if e[0] == "get+" and e[1] == who)
                match_idx, match_lab = first_match((gp[2], gp[3]))
                if who in ("outer", "svc"):
                    if consumed != 0:
                        fail("waited", f"{who} consumed {consumed} environment events before raising ResourceNotFound")
                    gi = tr.index(gp)
                    if match_idx is not None and match_idx < gi:
                        fail("false-failure", f"{who} raised ResourceNotFound although {match_lab} had been published")
                else:
                    fail("false-failure", f"waiter {who} failed with {ev[2]} (matching publication index {match_idx})")
        # completion: with a matching publication every waiter returns and start-up completes
        if kind in ("basic", "alias", "two", "multi", "burst", "generic", "audit", "giveup", "refused", "alias-nested", "after-subblock", "nested-host"):
            waiters = {"basic": ["w"], "alias": ["w"], "two": ["w1", "w2"], "multi": ["wa", "wb"], "burst": ["w"], "generic": ["w"], "audit": ["w"],
                       "giveup": ["w"], "refused": ["w"], "alias-nested": ["w"], "after-subblock": ["w"], "nested-host": ["w"]}[kind]
            if self.has_match(program):
                for w in waiters:
                    if not any(ev[0] == "get-" and ev[1] == w for ev in tr):
                        fail("lost-wakeup", f"waiter {w} never returned although a matching publication exists (outcome {outcome})")
                if not any(ev[0] == "returned" for ev in tr):
                    fail("lost-wakeup", f"start_component never returned (outcome {outcome})")
            else:
                for w in waiters:
                    if any(ev[0] in ("get-", "get!") and ev[1] == w for ev in tr):
                        fail("false-wakeup", f"waiter {w} was released or failed without any matching publication")
                if outcome != "deadlock":
                    fail("false-wakeup", f"no matching publication exists but the run ended with {outcome}")


CHECK = C06()
