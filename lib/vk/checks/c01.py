"""C01 - context teardown: every callback exactly once, LIFO, one at a time (engine E1).

Program = (context kind, list of callback specs, how the block ends).  The explorer decides when the
gates inside async callbacks open and when (at which loop iteration) a cancellation lands while the
block is inside its body.  Reference model: a Python list used as a stack.
"""

from __future__ import annotations

import itertools
from typing import Any

import anyio
from anyio.lowlevel import checkpoint

from ..explore import E1Check

ENDS = ("return", "raise", "group", "cancel-scope", "cancel-task", "return-in-except")


class HE(Exception):
    pass


class HB(BaseException):
    pass


class _T1:
    pass


class _T2:
    pass


class _TwoTypes(_T1, _T2):
    pass


class _Awaitable:
    """A non-coroutine awaitable (what a sync callback may legitimately return)."""

    def __init__(self, coro: Any) -> None:
        self.coro = coro

    def __await__(self):
        return self.coro.__await__()


class _FalsyCallable:
    """A legal callback that happens to be falsy (e.g. a callable collection of clean-up hooks that is still empty)."""

    def __init__(self, fn: Any) -> None:
        self.fn = fn

    def __len__(self) -> int:
        return 0

    def __call__(self, *args: Any) -> Any:
        return self.fn(*args)


def shapes(level: str) -> list[dict]:
    out = []
    for route in ("ctx", "mod", "res", "gen", "svcwin"):
        for mode in ("sync", "async", "awaitable"):
            if route == "svcwin" and mode != "sync":
                continue
            if route == "gen" and mode == "awaitable":
                continue
            for pe in (False, True):
                if route in ("res", "svcwin") and pe:
                    continue
                if route == "gen" and not pe:
                    continue  # the generator always receives the exception
                for raises in (None, "E", "B") + (("S",) if route == "gen" else ()):
                    for nest in (False, True):
                        if raises == "S" and nest:
                            continue
                        sh = {"route": route, "mode": mode, "pe": pe, "raises": raises, "nest": nest}
                        if level == "full":
                            out.append(sh)
                        elif level == "mid":
                            if route == "svcwin" and (nest or raises == "B"):
                                continue
                            if route == "mod" and (mode == "awaitable" or nest):
                                continue
                            if nest and mode == "awaitable":
                                continue
                            out.append(sh)
                        elif level == "small":
                            if route != "ctx" or mode == "awaitable" or nest and raises == "E":
                                continue
                            out.append(sh)
    return out


class C01(E1Check):
    id = "C01"
    backends = ["asyncio", "trio (quiescent choices + batch reversal; programs with <= 2 callbacks)"]
    assumptions = [
        "at most 3 callbacks per context (4 with one registered during teardown per callback)",
        "one cancellation per execution, delivered while the block is inside its body",
        "ready queue of asyncio is FIFO and never reordered",
    ]

    def rule(self, tier: str) -> str:
        return (
            "program = context kind x callback specs (route, sync/async/awaitable, pass_exception, raises, registers "
            "another callback) x block ending; executions = all choices of gate completion order and cancellation "
            "position within the deviation bound; an execution is non-trivial if it contains >= 2 environment events "
            "or an injected (preemptive) one; distinct = distinct complete event traces"
        )

    def bounds(self, tier: str) -> dict:
        return {"callbacks": "n<=2 full grammar, n=3 reduced" if tier == "quick" else "n<=2 full, n=3 mid grammar",
                "deviation_bound": 1 if tier == "quick" else 2, "endings": ENDS}

    def units(self, tier: str, seed: int) -> list:
        progs = []
        full = shapes("full")
        mid = shapes("mid")
        small = shapes("small")
        for kind in ("root", "child"):
            for end in ENDS:
                for a in full:
                    progs.append({"kind": kind, "end": end, "cbs": [a], "mid": False})
        # two callbacks: full x mid (quick), full x full (thorough)
        second = mid if tier == "quick" else full
        for kind in ("root", "child"):
            for end in ENDS:
                for a, b in itertools.product(second if tier == "quick" else full, second):
                    progs.append({"kind": kind, "end": end, "cbs": [a, b], "mid": end.startswith("cancel")})
        third = small if tier == "quick" else mid
        base3 = small
        for kind in ("root", "child"):
            for end in ("return", "raise", "cancel-scope") if tier == "quick" else ENDS:
                for a, b, c in itertools.product(base3, base3, third):
                    progs.append({"kind": kind, "end": end, "cbs": [a, b, c], "mid": False})
        # group programs into units of ~50 to keep the pool busy without overhead
        units = []
        step = 40
        for i in range(0, len(progs), step):
            units.append(progs[i:i + step])
        units.append({"gen_edges": True})
        return units

    def bound(self, tier: str, program: Any) -> int:
        if tier == "quick":
            return 1 if len(program["cbs"]) <= 2 else 0
        return 2 if len(program["cbs"]) <= 1 else 1

    def hash_modes(self, tier: str, program: Any) -> tuple:
        # thorough: both iteration orders of the task sets that anyio walks when it delivers a cancellation
        return (0,) if tier == "quick" else (0, 1)

    def backends_for(self, tier: str, program: Any) -> tuple:
        if program["end"] == "cancel-task":
            return ("asyncio",)  # Task.cancel() is an asyncio notion
        n = len(program["cbs"])
        if tier == "quick":
            return ("asyncio", "trio") if n == 1 or (n == 2 and program["cbs"][1]["route"] == "ctx" and not program["cbs"][1]["nest"]) else ("asyncio",)
        return ("asyncio", "trio") if n <= 2 else ("asyncio",)

    def gen_edges_unit(self) -> dict:
        """@context_teardown around generators that never reach a teardown part: one that finishes without yielding registers nothing;
        one that raises before its yield registers nothing, lets the exception through and is closed at once (its `finally` runs)."""
        from ..explore import new_summary

        fails: list = []

        async def main() -> None:
            from asphalt.core import Context, context_teardown

            log: list = []

            @context_teardown
            async def no_yield(tag: str) -> Any:
                log.append(("setup", tag))
                if tag == "never":
                    yield

            @context_teardown
            async def raises_first(tag: str) -> Any:
                try:
                    log.append(("setup", tag))
                    raise HE(tag)
                    yield  # noqa: unreachable - makes this an async generator function
                finally:
                    log.append(("closed", tag))

            @context_teardown
            async def normal(tag: str) -> Any:
                log.append(("setup", tag))
                exc = yield
                log.append(("teardown", tag, type(exc).__name__ if exc else None))

            for block_raises in (False, True):
                log.clear()
                try:
                    async with Context():
                        await normal("a")
                        r = await no_yield("b")
                        if r is not None:
                            fails.append(("gen-edge", f"a @context_teardown function returned {r!r}"))
                        try:
                            await raises_first("c")
                            fails.append(("gen-edge", "the exception raised before the generator's yield did not reach the caller"))
                        except HE:
                            pass
                        if ("closed", "c") not in log:
                            fails.append(("gen-edge", "a generator that raised before its yield was not closed when the call returned"))
                        await normal("d")
                        log.append(("block-end",))
                        if block_raises:
                            raise HE("block")
                except HE:
                    pass
                exc_name = "HE" if block_raises else None
                want = [("setup", "a"), ("setup", "b"), ("setup", "c"), ("closed", "c"), ("setup", "d"), ("block-end",),
                        ("teardown", "d", exc_name), ("teardown", "a", exc_name)]
                if log != want:
                    fails.append(("gen-edge", f"events {log}, expected {want}"))

        async def scoped_main() -> None:
            """a generator that keeps a nested context open around its yield (a scoped sub-context living as long as the service): its
            teardown part belongs to the context the function was CALLED in and runs there in reverse order of registration"""
            from asphalt.core import Context, context_teardown

            for block_raises in (False, True):
                log: list = []

                @context_teardown
                async def scoped(tag: str) -> Any:
                    log.append(("setup", tag))
                    async with Context():
                        exc = yield
                        log.append(("teardown", tag, type(exc).__name__ if exc else None))

                try:
                    async with Context() as outer:
                        outer.add_teardown_callback(lambda: log.append(("first",)))
                        await scoped("s")
                        outer.add_teardown_callback(lambda: log.append(("last",)))
                        log.append(("block-end",))
                        if block_raises:
                            raise HE("block")
                except HE:
                    pass
                except BaseException as e:  # noqa: BLE001
                    fails.append(("gen-edge", f"leaving the context of a generator with a scoped sub-context raised {e!r}"))
                want = [("setup", "s"), ("block-end",), ("last",), ("teardown", "s", "HE" if block_raises else None), ("first",)]
                if log != want:
                    fails.append(("gen-edge", f"scoped generator: events {log}, expected {want}"))

        async def dup_main() -> None:
            """the SAME callable registered several times with other callbacks in between: still strict reverse order of registration"""
            from asphalt.core import Context

            for pass_exc in (False, True):
                order: list = []
                counter = {"n": 0}

                def release(*a: Any) -> None:
                    counter["n"] += 1
                    order.append(f"A{counter['n']}")

                def other(tag: str):
                    def cb() -> None:
                        order.append(tag)

                    return cb

                async with Context() as ctx:
                    ctx.add_teardown_callback(release, pass_exc)
                    ctx.add_teardown_callback(other("B"))
                    ctx.add_teardown_callback(release, pass_exc)
                    ctx.add_resource(object(), "r1", teardown_callback=other("C"))
                    ctx.add_resource(object(), "r2", teardown_callback=release) if not pass_exc else ctx.add_teardown_callback(release, pass_exc)
                    ctx.add_teardown_callback(other("D"))
                if order != ["D", "A1", "C", "A2", "B", "A3"]:
                    fails.append(("order", f"one callable registered three times between others: callbacks ran {order}, expected D A C A B A"))

        try:
            anyio.run(main)
            anyio.run(dup_main)
            anyio.run(scoped_main)
        except BaseException as e:  # noqa: BLE001
            fails.append(("gen-edge", f"scenario raised {e!r}"))
        s = new_summary()
        s["evaluations"] = s["transitions"] = s["states"] = s["distinct"] = s["nontrivial"] = 1
        s["outcomes"] = {"done": 1}
        if fails:
            s["violations"].append({"keys": ["gen-edge"], "fails": [list(f) for f in fails], "program": {"gen_edges": True}, "choices": [], "trace": [],
                                    "outcome": "done"})
            s["keyhist"] = {"gen-edge": 1}
        return s

    def replay(self, rec: dict) -> Any:
        if isinstance(rec.get("program"), dict) and rec["program"].get("gen_edges"):
            s = self.gen_edges_unit()
            for v in s["violations"]:
                for f in v["fails"]:
                    print("FAIL", f[0], "-", f[1])
            print(f"VIOLATION property=C01 replay={rec.get('_path', '')}" if s["violations"] else "no violation on this tree")
            return 1 if s["violations"] else 0
        return super().replay(rec)

    def work(self, unit: Any, tier: str) -> dict:
        from ..explore import explore_program, new_summary

        if isinstance(unit, dict) and unit.get("gen_edges"):
            return self.gen_edges_unit()
        tot = new_summary()
        for prog in unit:
            s = explore_program(self, prog, self.bound(tier, prog), self.max_execs(tier, prog), self.hash_modes(tier, prog), self.backends_for(tier, prog))
            for b, n in s.get("per_backend", {}).items():
                tot.setdefault("extra", {})["executions_" + b] = tot.setdefault("extra", {}).get("executions_" + b, 0) + n
            for k in ("evaluations", "transitions", "states", "distinct", "nontrivial"):
                tot[k] += s[k]
            tot["violations"].extend(s["violations"])
            for kk, nn in s.get("keyhist", {}).items():
                tot.setdefault("keyhist", {})[kk] = tot.setdefault("keyhist", {}).get(kk, 0) + nn
            tot["errors"].extend(s["errors"])
            tot["capped"] = tot["capped"] or s["capped"]
            tot["max_dev"] = max(tot["max_dev"], s["max_dev"])
            for o, n in s["outcomes"].items():
                tot["outcomes"][o] = tot["outcomes"].get(o, 0) + n
            if len(tot["samples"]) < 2 and s["samples"]:
                tot["samples"].append(s["samples"][-1])
        tot["violations"] = tot["violations"][:4]
        return tot

    # ------------------------------------------------------------------------------------------
    async def main(self, env: Any, program: dict) -> None:
        from asphalt.core import Context, add_teardown_callback, context_teardown

        import asyncio

        st: dict[str, Any] = {"in_body": False, "L": [], "model": [], "body_exc": None, "ctx": None}
        cbs = program["cbs"]
        end = program["end"]
        log = env.log

        def cb_body_sync(label: str, spec: dict, args: tuple) -> None:
            ctx = st["ctx"]
            log("cb+", label, bool(ctx.closed))
            st["started"].append(label)
            if spec["pe"] or spec["route"] == "gen":
                st["got_exc"][label] = args[0] if args else "<missing>"
            if spec["nest"]:
                nl = label + "n"
                ctx.add_teardown_callback(make_plain(nl))
                st["model"].append(nl)
                log("reg", nl)

        def finish(label: str, spec: dict) -> None:
            if spec["raises"] == "E":
                raise HE(label)
            if spec["raises"] == "B":
                raise HB(label)
            if spec["raises"] == "S" and isinstance(st["got_exc"].get(label), BaseException):
                # the teardown part re-raises the very exception it was handed: that is still a callback that raised
                raise st["got_exc"][label]

        def make_plain(label: str):
            def plain() -> None:
                log("cb+", label, bool(st["ctx"].closed))
                st["started"].append(label)
                log("cb-", label)
                st["ended"].append(label)

            return plain

        def make_cb(label: str, spec: dict):
            mode = spec["mode"]

            async def inner(args: tuple) -> None:
                try:
                    await env.gate("cb" + label)
                    finish(label, spec)
                except BaseException as e:
                    st["L"].append(e)
                    log("cb!", label, type(e).__name__)
                    raise
                finally:
                    log("cb-", label)
                    st["ended"].append(label)

            if mode == "sync":
                def cb(*args: Any) -> None:
                    try:
                        cb_body_sync(label, spec, args)
                        finish(label, spec)
                    except BaseException as e:
                        st["L"].append(e)
                        log("cb!", label, type(e).__name__)
                        raise
                    finally:
                        log("cb-", label)
                        st["ended"].append(label)
            elif mode == "async":
                async def cb(*args: Any) -> None:  # type: ignore[misc]
                    cb_body_sync(label, spec, args)
                    await inner(args)
            else:
                def cb(*args: Any) -> Any:  # type: ignore[misc]
                    cb_body_sync(label, spec, args)
                    return _Awaitable(inner(args))
            return cb

        # ONE decorated generator function serves every "gen" registration of the program (as a component class whose
        # start() is a @context_teardown generator serves all its instances): each call must keep its own generator
        @context_teardown
        async def genfn(label: str, spec: dict) -> Any:
            log("gen-setup", label)
            # the part before the yield registers a callback of its own (as a start() that publishes a resource with a teardown
            # callback does): it was registered BEFORE the generator's finalizer, so it runs after the part behind the yield
            st["ctx"].add_teardown_callback(make_plain(label + "p"))
            st["model"].append(label + "p")
            log("reg", label + "p")
            exc = yield
            cb_body_sync(label, spec, (exc,))
            try:
                if spec["mode"] == "async":
                    await env.gate("cb" + label)
                finish(label, spec)
            except BaseException as e:
                st["L"].append(e)
                log("cb!", label, type(e).__name__)
                raise
            finally:
                log("cb-", label)
                st["ended"].append(label)

        falsy_route = "res" if program["kind"] == "child" else "ctx"

        def make_cb(label: str, spec: dict, _mk: Any = make_cb) -> Any:  # noqa: F811
            cb = _mk(label, spec)
            # callbacks need not be functions: in child-context programs the resource route, in root programs the direct route,
            # registers a callable OBJECT that is falsy
            return _FalsyCallable(cb) if spec["route"] == falsy_route else cb

        async def register(i: int, spec: dict, ctx: Any) -> None:
            label = str(i)
            route = spec["route"]
            if route == "ctx":
                ctx.add_teardown_callback(make_cb(label, spec), spec["pe"]) if spec["pe"] else ctx.add_teardown_callback(make_cb(label, spec))
            elif route == "mod":
                add_teardown_callback(make_cb(label, spec), pass_exception=spec["pe"])
            elif route == "res":
                if int(label) % 2:
                    # published under two types: the callback is still ONE callback
                    ctx.add_resource(_TwoTypes(), "r" + label, [_T1, _T2], teardown_callback=make_cb(label, spec))
                else:
                    ctx.add_resource(object(), "r" + label, teardown_callback=make_cb(label, spec))
            elif route == "svcwin":
                # a callback registered on the context while start_service_task() is still starting the task: the task's
                # finalizer is registered afterwards, so at teardown the task is stopped first, then this callback runs
                async def svc(*, task_status: Any) -> None:
                    ctx.add_teardown_callback(make_cb(label, spec))
                    st["model"].append(label)
                    log("reg", label)
                    task_status.started()
                    try:
                        await anyio.Event().wait()
                    finally:
                        log("svc-end", label)

                await ctx.start_service_task(svc, "svc" + label)
                return
            else:
                await genfn(label, spec)
            st["model"].append(label)
            log("reg", label)

        st["started"] = []
        st["ended"] = []
        st["got_exc"] = {}
        block_exc = HE("block") if end == "raise" else (ExceptionGroup("blockgroup", [HE("g1"), KeyError("g2")]) if end == "group" else None)

        async def body() -> None:
            ctx = Context()
            st["ctx"] = ctx
            try:
                async with ctx:
                    try:
                        st["in_body"] = True
                        for i, spec in enumerate(cbs):
                            await register(i, spec, ctx)
                            if program["mid"] and i == 0:
                                await checkpoint()
                        log("block-wait")
                        await checkpoint()
                        await env.gate("block")
                        log("block-end")
                        if block_exc is not None:
                            raise block_exc
                    except BaseException as e:
                        st["body_exc"] = e
                        log("body-exc", type(e).__name__)
                        raise
                    finally:
                        st["in_body"] = False
                        env.drop_action("cancel")
            except BaseException as e:
                st["caller_exc"] = e
                log("caller-exc", type(e).__name__)
            else:
                st["caller_exc"] = None
                log("caller-ok")
            # entering the same context once more is refused - and the refusal changes nothing: it still reports itself closed
            try:
                await ctx.__aenter__()
                st["reentered"] = True
            except RuntimeError:
                pass
            except BaseException as e:  # noqa: BLE001
                st["reentered"] = repr(e)
            st["closed_after"] = bool(ctx.closed)

        async def outer() -> None:
            if program["kind"] == "root":
                await body()
            else:
                async with Context():
                    await body()

        async def outer2() -> None:
            if end == "return-in-except":
                try:
                    raise KeyError("unrelated")
                except KeyError:
                    await outer()
            else:
                await outer()

        if end == "cancel-scope":
            with anyio.CancelScope() as sc:
                def do_cancel() -> None:
                    if st["in_body"]:
                        log("CANCEL")
                        sc.cancel()

                env.action("cancel", do_cancel)
                await outer2()
        elif end == "cancel-task":
            t = asyncio.ensure_future(outer2())

            def do_cancel2() -> None:
                if st["in_body"]:
                    log("CANCEL")
                    t.cancel()

            env.action("cancel", do_cancel2)
            try:
                await t
            except BaseException as e:  # noqa: BLE001
                log("task-exc", type(e).__name__)
        else:
            await outer2()
        env.drop_action("cancel")
        self.oracle(env, program, st)

    # ------------------------------------------------------------------------------------------
    def oracle(self, env: Any, program: dict, st: dict) -> None:
        fail = env.fail
        if "caller_exc" not in st:
            fail("no-outcome", "the async with block never returned control to its caller")
            return
        # (1) LIFO order incl. callbacks registered during teardown, each exactly once
        stack: list[str] = []
        expected: list[str] = []
        regs = [ev[1] for ev in env.trace if ev[0] == "reg"]
        # rebuild the model: registrations before teardown push; during teardown nested ones push right away
        pre = [r for r in regs if not r.endswith("n")]
        stack = list(pre)
        nested = {r[:-1] for r in regs if r.endswith("n")}
        specs = {str(i): s for i, s in enumerate(program["cbs"])}
        while stack:
            x = stack.pop()
            expected.append(x)
            if not x.endswith(("n", "p")) and specs[x]["nest"]:
                stack.append(x + "n")
        started = st["started"]
        if started != expected:
            fail("order", f"callbacks started in order {started}, reference stack gives {expected}")
        for lab in set(started):
            if started.count(lab) != 1:
                fail("once", f"callback {lab} started {started.count(lab)} times")
        # (2) one at a time; everything that started also ended before the caller got control back
        depth = 0
        for ev in env.trace:
            if ev[0] == "cb+":
                depth += 1
                if depth > 1:
                    fail("overlap", f"callback {ev[1]} started while another one had not finished")
            elif ev[0] == "cb-":
                depth -= 1
            elif ev[0] in ("caller-exc", "caller-ok") and depth != 0:
                fail("unfinished", "control returned to the caller while a callback (or the awaitable it returned) had not completed")
        if sorted(st["ended"]) != sorted(started):
            fail("unfinished", f"started {started} but completed {st['ended']}")
        if not program["end"].startswith("cancel"):
            for ev in env.trace:
                if ev[0] == "cb+" and specs.get(ev[1], {}).get("route") == "svcwin":
                    i_cb = env.trace.index(ev)
                    i_end = next((i for i, e2 in enumerate(env.trace) if e2[0] == "svc-end" and e2[1] == ev[1]), None)
                    if i_end is None or i_end > i_cb:
                        fail("order", f"callback {ev[1]} (registered while its service task was starting) ran before the task was stopped")
        # (3) pass_exception
        body_exc = st["body_exc"]
        for lab, got in st["got_exc"].items():
            if got is not body_exc:
                fail("pass-exception", f"callback {lab} received {got!r}, the block ended with {body_exc!r}")
        # (5) closed
        for ev in env.trace:
            if ev[0] == "cb+" and ev[2] is not True:
                fail("closed", f"ctx.closed was false inside callback {ev[1]}")
        if not st.get("closed_after"):
            fail("closed", "ctx.closed is false after the block has been left (and a second entry has been refused)")
        if st.get("reentered"):
            fail("closed", f"entering the context again after its block had been left: {st['reentered']!r} instead of RuntimeError")
        # (4)/(6) what the caller sees
        L = st["L"]
        out = st["caller_exc"]
        if L:
            def groups(e: BaseException):
                if isinstance(e, BaseExceptionGroup):
                    yield e
                    for x in e.exceptions:
                        yield from groups(x)

            ok = out is not None and any(
                len(g.exceptions) == len(L) and all(a is b for a, b in zip(g.exceptions, L)) for g in groups(out)
            )
            has_svc = any(c["route"] == "svcwin" for c in program["cbs"])
            if not ok and has_svc:
                # the service task's own finalizer is a teardown callback too (not one of the harness's): under a cancelled
                # teardown it contributes a cancellation exception of its own to the group
                import asyncio as _asyncio

                def mine(g: BaseExceptionGroup) -> list:
                    return [x for x in g.exceptions if any(x is y for y in L) or not isinstance(x, _asyncio.CancelledError)]

                ok = out is not None and any(len(mine(g)) == len(L) and all(a is b for a, b in zip(mine(g), L)) for g in groups(out))
            if not ok and env.backend == "trio":
                # trio's nurseries / cancel scopes split the backend's own cancellation exceptions off an exception group (and
                # collapse a group that holds nothing else): demand the group for the exceptions the callbacks raised themselves
                cancelled = anyio.get_cancelled_exc_class()
                Lnc = [e for e in L if not isinstance(e, cancelled)]
                if not Lnc:
                    ok = out is not None
                else:
                    ok = out is not None and any(
                        [x for x in g.exceptions if not isinstance(x, cancelled)] == Lnc
                        and all(a is b for a, b in zip([x for x in g.exceptions if not isinstance(x, cancelled)], Lnc))
                        for g in groups(out)
                    )
            if not ok and env.backend == "trio" and any(isinstance(x, BaseExceptionGroup) for x in L):
                # (a callback that re-raises a GROUP: trio rebuilds nested groups on the way out, so compare the leaves by identity)
                def leaves_of(e: BaseException) -> list:
                    return [y for x in e.exceptions for y in leaves_of(x)] if isinstance(e, BaseExceptionGroup) else [e]

                want = [y for x in L for y in leaves_of(x)]
                ok = out is not None and any(len(leaves_of(g)) == len(want) and all(a is b for a, b in zip(leaves_of(g), want)) for g in groups(out))
            if not ok:
                fail("group", f"callbacks raised {L!r} but the caller saw {out!r}")
        else:
            end = program["end"]
            def only_cancellations0(e: BaseException) -> bool:
                if isinstance(e, BaseExceptionGroup):
                    return all(only_cancellations0(x) for x in e.exceptions)
                return isinstance(e, anyio.get_cancelled_exc_class())

            if body_exc is None:
                late_cancel = ("CANCEL",) in env.trace and any(c["route"] == "svcwin" for c in program["cbs"])
                if out is not None and not (late_cancel and only_cancellations0(out)):
                    # (a cancellation that lands on the block's last step hits the service task's finalizer during the teardown)
                    fail("outcome", f"clean block, no callback raised, caller saw {out!r}")
            elif isinstance(body_exc, Exception) and not isinstance(body_exc, BaseExceptionGroup):
                if out is not body_exc:
                    fail("outcome", f"block raised {body_exc!r}, no callback raised, caller saw {out!r}")
            else:
                def only_cancellations(e: BaseException) -> bool:
                    if isinstance(e, BaseExceptionGroup):
                        return all(only_cancellations(x) for x in e.exceptions)
                    return isinstance(e, anyio.get_cancelled_exc_class())

                if out is None:
                    fail("outcome", f"block ended with {body_exc!r} but the caller saw a normal exit")
                elif end.startswith("cancel") and not isinstance(out, anyio.get_cancelled_exc_class()):
                    if not (any(c["route"] == "svcwin" for c in program["cbs"]) and only_cancellations(out)):
                        fail("outcome", f"block was cancelled, no callback raised, caller saw {out!r}")


CHECK = C01()
