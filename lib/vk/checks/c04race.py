"""Racing part of C04 (engine E1): concurrent lookups while an async factory is parked at a gate."""

from __future__ import annotations

import itertools
from typing import Any

import anyio

from ..explore import E1Check

APIS = ("method", "shortcut", "inject")


class A:
    pass


class B:
    pass


class AB(A, B):
    pass


class Race(E1Check):
    id = "C04"

    def hash_modes(self, tier: str, program: Any) -> tuple:
        return (0,)

    def bound(self, tier: str, program: Any) -> int:
        return 1 if tier == "quick" else 2

    async def main(self, env: Any, program: dict) -> None:
        from asphalt.core import Context, get_resource, inject, resource

        p = program["race"]
        if "compwait" in p:
            await self.compwait(env, p["compwait"])
            return
        calls = {"n": 0}
        made: list[Any] = []
        two = p["types"] == 2

        class Flaky(Exception):
            pass

        async def afactory() -> Any:
            calls["n"] += 1
            k = calls["n"]
            env.log("factory+", k)
            await env.gate(f"fac{k}")
            if p.get("fail_first") and k == 1:
                env.log("factory!", k)
                raise Flaky("first generation fails")
            v = AB() if two else A()
            made.append(v)
            env.log("factory-", k)
            return v

        def sfactory() -> Any:
            calls["n"] += 1
            env.log("factory", calls["n"])
            v = AB() if two else A()
            made.append(v)
            return v

        @inject
        async def inj_a(r: A = resource()) -> Any:
            return r

        @inject
        async def inj_b(r: B = resource()) -> Any:
            return r

        got: dict[str, Any] = {}
        got_t: dict[str, type] = {}
        failed: dict[str, BaseException] = {}
        cancelled: set[str] = set()
        events: list = []

        async def listener(ctx: Any, started: anyio.Event) -> None:
            async with ctx.resource_added.stream_events() as stream:
                started.set()
                async for ev in stream:
                    events.append((tuple(t.__name__ for t in ev.resource_types), ev.resource_name, ev.is_factory))

        async def looker(name: str, ctx: Any, api: str, T: type, pre_gate: bool) -> None:
            async with Context(ctx) if p["own_child"] and name != "t0" else _null():
                if pre_gate:
                    await env.gate("go" + name)
                env.log("lookup+", name)
                scope = anyio.CancelScope()
                if p.get("cancel_first") and name == "t0":
                    def _cancel() -> None:
                        env.log("cancel", name)
                        cancelled.add(name)
                        scope.cancel()

                    env.action("cancel-t0", _cancel)
                try:
                    with scope:
                        if api == "method":
                            target = ctx if not (p["own_child"] and name != "t0") else None
                            from asphalt.core import current_context

                            r = await (target or current_context()).get_resource(T)
                        elif api == "shortcut":
                            r = await get_resource(T)
                        else:
                            r = await (inj_a() if T is A else inj_b())
                except Exception as e:  # noqa: BLE001
                    failed[name] = e
                    env.log("lookup!", name, type(e).__name__)
                    return
                finally:
                    if name == "t0":
                        env.drop_action("cancel-t0")
                if scope.cancelled_caught:
                    env.log("lookup-cancelled", name)
                    return
                got[name] = r
                got_t[name] = T
                env.log("lookup-", name)

        adder_state: dict[str, Any] = {}

        async def adder(ctx: Any) -> None:
            # while the generation is in flight another task registers a static resource under one of the factory's types
            if p.get("adder_gate"):
                await env.gate("adder")
            static_b = B()
            try:
                ctx.add_resource(static_b, types=B)
                adder_state["static"] = static_b
                env.log("adder-added")
                adder_state["first_lookup"] = ctx.get_resource_nowait(B)
            except Exception as e:  # noqa: BLE001 - (B, default) already taken by the generated object: legitimate
                env.log("adder-conflict", type(e).__name__)

        child_sees: dict[str, Any] = {}
        async with Context() as ctx:
            # ("wrapped": the asynchronous factory is a plain callable returning the coroutine - e.g. a lambda binding arguments)
            fac = (lambda: afactory()) if p.get("wrapped") else afactory
            ctx.add_resource_factory(fac if p["async"] else sfactory, types=[A, B] if two else [A])
            async with anyio.create_task_group() as ltg:
                lstarted = anyio.Event()
                ltg.start_soon(listener, ctx, lstarted)
                await lstarted.wait()
                async with anyio.create_task_group() as tg:
                    for i, (api, tsel, pre) in enumerate(p["tasks"]):
                        T = B if (tsel == "B" and two) else A
                        tg.start_soon(looker, f"t{i}", ctx, api, T, pre)
                    if p.get("adder"):
                        tg.start_soon(adder, ctx)
                # afterwards: every API returns the same object
                later_a = ctx.get_resource_nowait(A) if not p["async"] else await ctx.get_resource(A)
                later_b = (await ctx.get_resource(B)) if two else None
                if p.get("adder"):
                    # a context created afterwards inherits the static resource (and not the generated one)
                    async with Context() as child:
                        try:
                            child_sees["B"] = child.get_resource_nowait(B, optional=True) if "static" in adder_state else None
                        except Exception as e:  # noqa: BLE001 - e.g. the lookup fell through to the (async) factory
                            child_sees["B"] = e
                for _ in range(3):
                    await anyio.lowlevel.checkpoint()
                ltg.cancel_scope.cancel()
        # oracle
        # hand-out stability: what a task was handed for a pair is what a later lookup of that pair returns
        for name, obj in got.items():
            if not p["own_child"] or name == "t0":
                later = later_a if got_t[name] is A else later_b
                if later is not obj:
                    env.fail("stable", f"task {name} was handed one object for ({got_t[name].__name__}, default) and a later lookup of that pair returned another")
        # the first generation is announced exactly once per context
        gen_events = [e for e in events if not e[2]]
        if not p["own_child"] and not p.get("adder") and got and len(gen_events) != 1:
            env.fail("events", f"one context, one first generation, but the listener received {gen_events}")
        if p.get("cancel_first"):
            # the task that triggered the generation was (possibly) cancelled while the factory was running: nobody else may be
            # affected - every other lookup returns, all with one object, which is also what later lookups return
            names = {f"t{i}" for i in range(len(p["tasks"]))}
            lost = names - set(got) - set(failed) - {n for n in cancelled if n not in got}
            if failed:
                env.fail("factory", f"lookups failed with {failed!r} although the factory never raised")
            if lost:
                env.fail("factory", f"lookup(s) {sorted(lost)} neither returned nor were cancelled")
            if len({id(o) for o in got.values()} | {id(later_a)}) != 1:
                env.fail("factory", f"after a cancelled generation the lookups of one context returned {len({id(o) for o in got.values()} | {id(later_a)})} different objects")
            if calls["n"] > 1 + len(cancelled):
                env.fail("factory", f"factory ran {calls['n']} times ({len(cancelled)} cancelled generation(s))")
            return
        if p.get("fail_first"):
            for name, exc in failed.items():
                if type(exc).__name__ != "Flaky":
                    env.fail("factory", f"task {name} failed with {exc!r}, which the factory did not raise")
            if len({id(o) for o in got.values()}) > 1:
                env.fail("factory", f"after a failed first generation the racing lookups returned {len({id(o) for o in got.values()})} different objects")
            if calls["n"] > 2:
                env.fail("factory", f"factory ran {calls['n']} times (one failed generation and one successful one are enough)")
            if len(failed) + len(got) != len(p["tasks"]):
                env.fail("factory", f"{len(p['tasks']) - len(failed) - len(got)} racing lookup(s) neither returned nor failed")
            return
        if p.get("adder"):
            # events: the static add (if it succeeded) and ONE generation, announced with the types the product was registered under
            if made:
                reg = tuple(t.__name__ for t, later in ((A, later_a), (B, later_b)) if later is made[0])
                gen = [e for e in events if not e[2] and not ("static" in adder_state and e[0] == ("B",))]
                if reg and (len(gen) != 1 or tuple(sorted(gen[0][0])) != tuple(sorted(reg))):
                    env.fail("events", f"the generated object is registered under {reg}; generation events received: {gen} (all events {events})")
            if "static" in adder_state and child_sees.get("B") is not adder_state["static"]:
                env.fail("visible", "a context created after the race does not inherit the static resource that was added during the generation")
            if "static" in adder_state:
                if adder_state.get("first_lookup") is not adder_state["static"]:
                    env.fail("stable", "a lookup right after add_resource() did not return the resource just added")
                if later_b is not adder_state["static"]:
                    env.fail("stable", "(B, default) returned the static resource first and a different object after the factory's generation had completed")
            if calls["n"] != 1:
                env.fail("factory", f"factory ran {calls['n']} times for one context")
            if any(o is not later_a for o in got.values() if isinstance(o, A) and not isinstance(o, B)) and not two:
                env.fail("factory", "racing lookups returned different objects")
            return
        if p["own_child"]:
            # t0 uses the parent context, the others each their own child: one product per context
            objs = list(got.values())
            if len({id(o) for o in objs}) != len(objs):
                env.fail("factory", f"contexts share a generated object: {got}")
            if calls["n"] != len(objs) + (0 if "t0" in got and got["t0"] is later_a else 1):
                env.fail("factory", f"factory ran {calls['n']} times for {len(objs)} requesting contexts")
            if got.get("t0") is not later_a:
                env.fail("factory", "a later lookup in the parent returned a different object")
        else:
            if calls["n"] != 1:
                env.fail("factory", f"factory ran {calls['n']} times for one context (racing lookups {list(got)})")
            ids = {id(o) for o in got.values()} | {id(later_a)} | ({id(later_b)} if two else set())
            if len(ids) != 1:
                env.fail("factory", f"racing lookups of one context returned {len(ids)} different objects")


    async def compwait(self, env: Any, p: dict) -> None:
        """A component asks for a resource in start() before anybody provides it, waits, and a sibling then publishes a factory (or a
        plain resource): the lookup that is woken up is a lookup like any other."""
        from asphalt.core import Component, Context, add_resource, add_resource_factory, get_resource, get_resource_nowait, inject, resource, start_component

        kind, api, nw = p["kind"], p["api"], p["waiters"]
        calls = {"n": 0}
        made: list[Any] = []
        got: dict[str, Any] = {}

        async def afactory() -> Any:
            calls["n"] += 1
            env.log("factory+", calls["n"])
            await env.gate(f"fac{calls['n']}")
            v = A()
            made.append(v)
            env.log("factory-", calls["n"])
            return v

        def sfactory() -> Any:
            calls["n"] += 1
            env.log("factory", calls["n"])
            v = A()
            made.append(v)
            return v

        @inject
        async def inj(r: A = resource("x")) -> Any:
            return r

        class W(Component):
            def __init__(self, tag: str = "w") -> None:
                self.tag = tag

            async def start(self) -> None:
                env.log("ask", self.tag)
                if api == "nowait-first":
                    # (a synchronous look first: nothing there yet, nothing registered by the miss)
                    if get_resource_nowait(A, "x", optional=True) is not None:
                        env.fail("factory", "an optional synchronous lookup found a resource nobody has published")
                got[self.tag] = await (inj() if api == "inject" else get_resource(A, "x"))
                env.log("got", self.tag)

        class P(Component):
            async def start(self) -> None:
                await env.gate("publish")
                env.log("publish")
                if kind == "async":
                    add_resource_factory(afactory, "x", types=[A])
                elif kind == "sync":
                    add_resource_factory(sfactory, "x", types=[A])
                else:
                    v = A()
                    made.append(v)
                    add_resource(v, "x")

        class Root(Component):
            def __init__(self) -> None:
                for i in range(nw):
                    self.add_component(f"w{i}", W, tag=f"w{i}")
                self.add_component("p", P)

        async with Context() as ctx:
            try:
                await start_component(Root, {}, timeout=None)
            except Exception as e:  # noqa: BLE001
                env.fail("factory", f"a component that waited for the resource failed to start: {type(e).__name__}: {str(e)[:120]} caused by {e.__cause__!r}")
                return
            if kind != "res" and calls["n"] != 1:
                env.fail("factory", f"the factory was called {calls['n']} times for one context")
            if len(made) != 1:
                env.fail("factory", f"{len(made)} objects were produced for one context")
                return
            for tag, v in got.items():
                if v is not made[0]:
                    env.fail("stable", f"the waiting component {tag} got {v!r}, the context's object is {made[0]!r}")
            if len(got) != nw:
                env.fail("factory", f"{nw - len(got)} waiting components never got the resource")
            if ctx.get_resource_nowait(A, "x") is not made[0] or await ctx.get_resource(A, "x") is not made[0]:
                env.fail("stable", "a later lookup in the same context returned another object")
            if kind != "res":
                async with Context() as child:
                    if kind == "async":
                        try:
                            child.get_resource_nowait(A, "x")
                            env.fail("factory", "the synchronous API served an asynchronous factory")
                        except Exception as e:  # noqa: BLE001
                            if type(e).__name__ != "AsyncResourceError":
                                env.fail("factory", f"sync lookup of an async factory raised {type(e).__name__}")
                    v2 = await child.get_resource(A, "x")
                    if v2 is made[0] or len(made) != 2:
                        env.fail("visible", "a context created afterwards did not generate its own object")


class _null:
    async def __aenter__(self) -> None:
        return None

    async def __aexit__(self, *a: Any) -> bool:
        return False


RACE = Race()


def adder_units(tier: str) -> list:
    units = []
    for api in APIS:
        for pre in (False, True):
            for ag in (False, True):
                units.append({"race": {"async": True, "types": 2, "own_child": False, "adder": True, "adder_gate": ag,
                                       "tasks": [[api, "A", pre]]}})
                # the lookup asks for the very pair the adder takes meanwhile
                units.append({"race": {"async": True, "types": 2, "own_child": False, "adder": True, "adder_gate": ag,
                                       "tasks": [[api, "B", pre]]}})
                if tier == "thorough":
                    units.append({"race": {"async": True, "types": 2, "own_child": False, "adder": True, "adder_gate": ag,
                                           "tasks": [[api, "A", pre], ["method", "A", not pre]]}})
    return units


def fail_first_units(tier: str) -> list:
    units = []
    for n in (2, 3):
        for apis in (("method",) * n, ("method", "shortcut", "inject")[:n]):
            for pre in ((False,) * n, (True,) * n, (False,) + (True,) * (n - 1)):
                units.append({"race": {"async": True, "types": 1, "own_child": False, "fail_first": True,
                                       "tasks": [list(t) for t in zip(apis, ("A",) * n, pre)]}})
    return units


def cancel_first_units(tier: str) -> list:
    """the lookup that triggered the generation is cancelled while the factory is still running; other tasks wait / come later"""
    units = []
    for n in (2, 3):
        for apis in (("method",) * n, ("method", "shortcut", "inject")[:n], ("inject", "method", "method")[:n]):
            for pre in ((False,) * n, (False,) + (True,) * (n - 1)):
                units.append({"race": {"async": True, "types": 1, "own_child": False, "cancel_first": True,
                                       "tasks": [list(t) for t in zip(apis, ("A",) * n, pre)]}})
    return units


def wrapped_units(tier: str) -> list:
    """the racing lookups of an asynchronous factory that is not a coroutine function itself"""
    units = []
    for n in ((2,) if tier == "quick" else (2, 3)):
        for apis in (("method",) * n, ("method", "shortcut", "inject")[:n], ("inject",) * n):
            for pre in ((False,) * n, (True,) * n):
                for types in (1, 2):
                    units.append({"race": {"async": True, "types": types, "own_child": False, "wrapped": True,
                                           "tasks": [list(t) for t in zip(apis, ("A", "B", "A")[:n] if types == 2 else ("A",) * n, pre)]}})
    return units


def two_type_units(tier: str) -> list:
    """racing lookups of the two types of one async factory (used by C03 for hand-out stability and C18 for events)"""
    units = []
    for apis in itertools.product(APIS, repeat=2):
        for tsel in (("A", "B"), ("B", "A")):
            for pre in ((False, False), (True, True), (False, True)):
                units.append({"race": {"async": True, "types": 2, "own_child": False, "tasks": [list(t) for t in zip(apis, tsel, pre)]}})
    return units


def compwait_units(tier: str) -> list:
    return [{"race": {"compwait": {"kind": k, "api": a, "waiters": w}}} for k in ("async", "sync", "res") for a in ("shortcut", "inject", "nowait-first")
            for w in ((1, 2) if tier == "thorough" else (1,))]


def race_units(tier: str) -> list:
    units = adder_units(tier) + fail_first_units(tier) + cancel_first_units(tier) + compwait_units(tier) + wrapped_units(tier)
    ntasks = (2,) if tier == "quick" else (2, 3)
    for is_async in (True, False):
        for types in (1, 2):
            for own_child in (False, True):
                for n in ntasks:
                    for apis in itertools.product(APIS, repeat=n):
                        if n == 3 and len(set(apis)) == 3 and apis != ("method", "shortcut", "inject"):
                            continue
                        for tsel in itertools.product(("A", "B") if types == 2 else ("A",), repeat=n):
                            for pre in ((False,) * n, (True,) * n) if tier == "quick" else itertools.product((False, True), repeat=n):
                                if own_child and "shortcut" not in apis and "inject" not in apis:
                                    pass
                                units.append({"race": {"async": is_async, "types": types, "own_child": own_child,
                                                       "tasks": [list(t) for t in zip(apis, tsel, pre)]}})
    return units
