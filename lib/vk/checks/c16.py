"""C16 - `asphalt run`: documented config precedence and deterministic service selection (engine E3)."""

from __future__ import annotations

import copy
import itertools
import os
import tempfile
from typing import Any

from ..explore import new_summary

FAIL = "<fails, starts nothing>"

# ---- pool of YAML documents: (yaml text, equivalent python value) -------------------------------------
DOCS: dict[str, tuple[str, Any]] = {
    "D1": ("component:\n  type: T\n  a: 1\n  nested:\n    x: 1\n    y:\n      z: 1\nlogging:\n  version: 1\nmax_threads: 5\n",
           {"component": {"type": "T", "a": 1, "nested": {"x": 1, "y": {"z": 1}}}, "logging": {"version": 1}, "max_threads": 5}),
    "D2": ("component:\n  nested:\n    x: 2\n    w: 3\n  b: 2\nlogging:\n  version: 1\n  disable_existing_loggers: false\n",
           {"component": {"nested": {"x": 2, "w": 3}, "b": 2}, "logging": {"version": 1, "disable_existing_loggers": False}}),
    "D3": ("component:\n  type: T3\n  a:\n    deep: 1\nstart_timeout: 7\n", {"component": {"type": "T3", "a": {"deep": 1}}, "start_timeout": 7}),
    "D4": ("component:\n  nested: 5\n  a.b: dotted\n", {"component": {"nested": 5, "a.b": "dotted"}}),
    "D9": ("component:\n  a: 1\n", {"component": {"a": 1}}),
    "D10": ("component:\n  type: T\n  env: !Env VK_ENVVAR\n  missing: !Env VK_NOT_SET\n  text: !TextFile {TEXT}\n  bin: !BinaryFile {BIN}\n",
            {"component": {"type": "T", "env": "envvalue", "missing": None, "text": "some text\nsecond line\n", "bin": b"\x00\x01binary\xff"}}),
    "S1": ("services:\n  s1:\n    component:\n      type: T1\n      p: 1\n    max_threads: 2\n  s2:\n    component:\n      type: T2\n",
           {"services": {"s1": {"component": {"type": "T1", "p": 1}, "max_threads": 2}, "s2": {"component": {"type": "T2"}}}}),
    "S2": ("services:\n  default:\n    component:\n      type: TD\n    logging:\n      root:\n        level: DEBUG\n  other:\n    component:\n      type: TO\n"
           "logging:\n  version: 1\n  root:\n    level: INFO\nmax_threads: 9\n",
           {"services": {"default": {"component": {"type": "TD"}, "logging": {"root": {"level": "DEBUG"}}}, "other": {"component": {"type": "TO"}}},
            "logging": {"version": 1, "root": {"level": "INFO"}}, "max_threads": 9}),
    "S3": ("services:\n  only:\n    component:\n      type: TONLY\n      p: 2\n", {"services": {"only": {"component": {"type": "TONLY", "p": 2}}}}),
    "S4": ("services:\n  s1:\n    component:\n      q: 5\n  s3:\n    component:\n      type: T3S\n",
           {"services": {"s1": {"component": {"q": 5}}, "s3": {"component": {"type": "T3S"}}}}),
    "S7": ("services:\n  - a\n  - b\n", {"services": ["a", "b"]}),
    # runner options (backend, backend_options) given by the selected service's own section override the top-level ones
    "S9": ("services:\n  s1:\n    component:\n      type: T9\n    backend: trio\n    backend_options:\n      debug: true\n  s2:\n    component:\n      type: T92\n"
           "backend: asyncio\nbackend_options:\n  debug: false\n  extra: 1\n",
           {"services": {"s1": {"component": {"type": "T9"}, "backend": "trio", "backend_options": {"debug": True}}, "s2": {"component": {"type": "T92"}}},
            "backend": "asyncio", "backend_options": {"debug": False, "extra": 1}}),
    "S8": ("services:\n  s1:\n    max_threads: 1\n", {"services": {"s1": {"max_threads": 1}}}),
    # one mapping shared by two services through a YAML anchor / alias, and a later document overriding it for one of them only
    "ANCH": ("services:\n  web:\n    component:\n      type: TW\n      db: &dbdefaults\n        url: sqlite\n        pool:\n          size: 5\n"
             "  worker:\n    component:\n      type: TK\n      db: *dbdefaults\n",
             {"services": {"web": {"component": {"type": "TW", "db": {"url": "sqlite", "pool": {"size": 5}}}},
                           "worker": {"component": {"type": "TK", "db": {"url": "sqlite", "pool": {"size": 5}}}}}}),
    "ANCH2": ("services:\n  web:\n    component:\n      db:\n        url: postgresql\n        pool:\n          size: 50\n",
              {"services": {"web": {"component": {"db": {"url": "postgresql", "pool": {"size": 50}}}}}}),
    "TOP": ("max_threads: 3\nlogging:\n  version: 1\n  root:\n    handlers: [console]\nbackend: trio\nbackend_options:\n  debug: true\n",
            {"max_threads": 3, "logging": {"version": 1, "root": {"handlers": ["console"]}}, "backend": "trio", "backend_options": {"debug": True}}),
}
COMPONENT_DOCS = ["D1", "D2", "D3", "D4", "D9", "D10"]
SERVICE_DOCS = ["S1", "S2", "S3", "S4", "S7", "S8", "TOP", "S9"]
ANCHOR_CASES = [(["ANCH", "ANCH2"], svc) for svc in ("web", "worker")] + [(["ANCH"], "worker"), (["ANCH2", "ANCH"], "web")]
# --set overrides that interact: the same key twice with an override of its parent in between, a child after its parent ...
SET_TRIPLES = [
    (("component.cache.ttl=10", ["component", "cache", "ttl"], 10), ("component.cache={backend: redis}", ["component", "cache"], {"backend": "redis"}),
     ("component.cache.ttl=60", ["component", "cache", "ttl"], 60)),
    (("component.a=1", ["component", "a"], 1), ("component.b=2", ["component", "b"], 2), ("component.a=3", ["component", "a"], 3)),
    (("component.m={q: 1}", ["component", "m"], {"q": 1}), ("component.m.r=2", ["component", "m", "r"], 2), ("component.m.q=5", ["component", "m", "q"], 5)),
    (("max_threads=4", ["max_threads"], 4), ("component.type=TSET", ["component", "type"], "TSET"), ("max_threads=6", ["max_threads"], 6)),
]

# --set menu: (argument, key path or None if malformed, parsed value)
SETS_COMPONENT = [
    ("component.a=5", ["component", "a"], 5),
    ("component.nested.y.z=9", ["component", "nested", "y", "z"], 9),
    ("component.new.path.k=true", ["component", "new", "path", "k"], True),
    ("component.dotted\\.key=1", ["component", "dotted.key"], 1),
    ("logging.loggers.a\\.b.level=DEBUG", ["logging", "loggers", "a.b", "level"], "DEBUG"),
    ("component.lst=[1, 2]", ["component", "lst"], [1, 2]),
    ("component.m={q: 1}", ["component", "m"], {"q": 1}),
    ("component.n=null", ["component", "n"], None),
    ("component.a.x=1", ["component", "a", "x"], 1),
    ("component.type=TSET", ["component", "type"], "TSET"),
    ("component.eq=a=b", ["component", "eq"], "a=b"),
    ("noequals", None, None),
    ("max_threads=4", ["max_threads"], 4),
    # the custom tags are replaced wherever YAML is parsed - also inside a --set value
    ("component.envset=!Env VK_ENVVAR", ["component", "envset"], "envvalue"),
    ("component.db={user: admin, password: !Env VK_ENVVAR, none: !Env VK_NOT_SET}", ["component", "db"], {"user": "admin", "password": "envvalue", "none": None}),
]
SETS_SERVICE = [
    ("services.s1.component.p=7", ["services", "s1", "component", "p"], 7),
    ("max_threads=4", ["max_threads"], 4),
    ("services.s2.component.extra.k=v", ["services", "s2", "component", "extra", "k"], "v"),
    ("services.default.component.type=TSETD", ["services", "default", "component", "type"], "TSETD"),
    ("logging.root.level=WARNING", ["logging", "root", "level"], "WARNING"),
    ("services=3", ["services"], 3),
    ("noequals", None, None),
]


ENV_VALUES = ("envvalue", "othervalue")


def subst_env(x: Any, val: str) -> Any:
    if isinstance(x, dict):
        return {k: subst_env(v, val) for k, v in x.items()}
    if isinstance(x, list):
        return [subst_env(v, val) for v in x]
    return val if x == "envvalue" else x


def ref_merge(a: Any, b: Any) -> dict:
    out = dict(a or {})
    for k, v in (b or {}).items():
        if isinstance(out.get(k), dict) and isinstance(v, dict):
            out[k] = ref_merge(out[k], v)
        else:
            out[k] = v
    return out


def reference(files: list[str], sets: list[tuple], service_opt: str | None, service_env: str | None) -> Any:
    """Independent statement of what `asphalt run` must hand to run_application (or FAIL)."""
    config: dict = {}
    for f in files:
        config = ref_merge(config, copy.deepcopy(DOCS[f][1]))
    for _arg, path, value in sets:
        if path is None:
            return FAIL
        sec = config
        for k in path[:-1]:
            if k not in sec:
                sec[k] = {}
            sec = sec[k]
            if not isinstance(sec, dict):
                return FAIL
        sec[path[-1]] = copy.deepcopy(value)
    services = config.pop("services", {})
    if not isinstance(services, dict):
        return FAIL
    if "component" in config:
        if services:
            return "<undefined: top-level component together with services>"
        services = {"default": {"component": config.pop("component")}}
    name = service_opt or service_env
    if not services:
        return FAIL
    if name:
        if name not in services:
            return FAIL
        svc = services[name]
    elif len(services) == 1:
        svc = next(iter(services.values()))
    elif "default" in services:
        svc = services["default"]
    else:
        return FAIL
    config = ref_merge(config, svc)
    if "component" not in config or not isinstance(config["component"], dict):
        return FAIL
    root = config.pop("component")
    if "type" not in root:
        return FAIL
    rtype = root.pop("type")
    backend = config.pop("backend", "asyncio")
    backend_options = config.pop("backend_options", {})
    return {"type": rtype, "config": root, "kwargs": dict(config, backend=backend, backend_options=backend_options)}


def cases(tier: str) -> list:
    out = []
    comp_files: list[tuple] = [()] + [(d,) for d in COMPONENT_DOCS] + [p for p in itertools.permutations(COMPONENT_DOCS, 2)]
    svc_files: list[tuple] = [(d,) for d in SERVICE_DOCS] + [p for p in itertools.permutations(SERVICE_DOCS, 2)]
    if tier == "thorough":
        comp_files += [p for p in itertools.permutations(["D1", "D2", "D3", "D4"], 3)]
        svc_files += [p for p in itertools.permutations(["S1", "S2", "S4", "TOP"], 3)]
    else:
        # three and four files (what the middle files set must survive): a few orders without --set
        comp_files += [("D1", "D2", "D3"), ("D3", "D2", "D1"), ("D9", "D4", "D2"), ("D1", "D2", "D4", "D3"),
                       ("D1", "D2", "D1"), ("D3", "D1", "D3", "D2")]  # (a file may be listed twice: every occurrence is merged where it stands)
        svc_files += [("S1", "S4", "TOP"), ("TOP", "S2", "S4")]
    for files in comp_files:
        setsets: list[tuple] = [()] + [(s,) for s in SETS_COMPONENT]
        if tier == "quick" and len(files) >= 3:
            setsets = [(), (SETS_COMPONENT[1],)]
        elif tier == "thorough" or len(files) <= 1:
            setsets += list(itertools.permutations(SETS_COMPONENT[:11], 2))
        else:
            setsets += [(SETS_COMPONENT[i], SETS_COMPONENT[(i * 3 + len(files[0])) % 11]) for i in range(11)]
        for ss in setsets:
            for sopt, senv in ((None, None), ("default", None), (None, "default"), ("nosuch", None), (None, "nosuch"), ("default", "nosuch")):
                if (sopt or senv) and len(ss) > 1:
                    continue
                out.append({"files": list(files), "sets": [list(s) for s in ss], "service": sopt, "env": senv})
    for files, svc in ANCHOR_CASES:
        out.append({"files": list(files), "sets": [], "service": svc, "env": None})
        out.append({"files": list(files), "sets": [], "service": None, "env": svc})
    for files in ((), ("D1",), ("D1", "D2"), ("D3",)):
        for triple in SET_TRIPLES:
            out.append({"files": list(files), "sets": [list(x) for x in triple], "service": None, "env": None})
    for files in svc_files:
        setsets = [()] + [(s,) for s in SETS_SERVICE]
        if tier == "quick" and len(files) >= 3:
            setsets = [()]
        if tier == "thorough":
            setsets += list(itertools.permutations(SETS_SERVICE[:5], 2))
        for ss in setsets:
            for sopt in (None, "s1", "other", "nosuch"):
                for senv in (None, "s1", "s2", "nosuch", "default"):
                    out.append({"files": list(files), "sets": [list(s) for s in ss], "service": sopt, "env": senv})
    return out


class _Recorder:
    def __init__(self) -> None:
        self.calls: list = []

    def __call__(self, component_class: Any, config: Any = None, **kwargs: Any) -> None:
        self.calls.append({"type": component_class, "config": copy.deepcopy(config), "kwargs": copy.deepcopy(kwargs)})


def deep_same(x: Any, y: Any) -> bool:
    if type(x) is not type(y):
        return False
    if isinstance(x, dict):
        return x.keys() == y.keys() and all(deep_same(x[k], y[k]) for k in x)
    if isinstance(x, (list, tuple)):
        return len(x) == len(y) and all(deep_same(a, b) for a, b in zip(x, y))
    return x == y


class C16:
    id = "C16"
    engine = "E3"
    level = "model_checking"
    backends = ["none (click command invoked in-process; run_application replaced by a recorder, plus end-to-end runs on asyncio)"]
    assumptions = [
        "the layout 'top-level component together with services' is not generated (the statement does not define it)",
        "run_application in the CLI module is replaced by a recorder for the bulk of the cases; a sample of layouts runs end-to-end through "
        "the real run_application with a recording CLI root component",
        "a command 'fails' when the click command raises / exits non-zero and the recorder was not called",
    ]

    def rule(self, tier: str) -> str:
        return ("case = ordered selection of 0-2 (thorough: 3) YAML documents from a pool x 0-2 --set overrides from a menu x --service x "
                "ASPHALT_SERVICE; the real click command is invoked and what reaches run_application is compared with an independent reference "
                "pipeline; distinct by construction; non-trivial = at least two of {files, --set, service selection} are present")

    def bounds(self, tier: str) -> dict:
        return {"documents": list(DOCS), "sets_component": [s[0] for s in SETS_COMPONENT], "sets_service": [s[0] for s in SETS_SERVICE]}

    def units(self, tier: str, seed: int) -> list:
        n = len(cases(tier))
        step = max(1, n // 64)
        return [{"lo": i, "hi": min(n, i + step)} for i in range(0, n, step)]

    def setup_files(self) -> tuple[str, dict[str, str]]:
        d = tempfile.mkdtemp(prefix="vk-c16-")
        textp = os.path.join(d, "text.txt")
        binp = os.path.join(d, "bin.dat")
        open(textp, "w").write("some text\nsecond line\n")
        open(binp, "wb").write(b"\x00\x01binary\xff")
        paths = {}
        for name, (text, _) in DOCS.items():
            p = os.path.join(d, name + ".yaml")
            open(p, "w").write(text.replace("{TEXT}", textp).replace("{BIN}", binp))
            paths[name] = p
        return d, paths

    def invoke(self, paths: dict, case: dict) -> tuple:
        import asphalt.core._cli as cli

        rec = _Recorder()
        old = cli.run_application
        cli.run_application = rec  # type: ignore[assignment]
        old_env = os.environ.get("ASPHALT_SERVICE")
        # (the variable's value changes from one invocation to the next within this process: it is read when the file is loaded)
        self._env_n = getattr(self, "_env_n", 0) + 1
        os.environ["VK_ENVVAR"] = ENV_VALUES[self._env_n % 2]
        case["_envval"] = ENV_VALUES[self._env_n % 2]
        os.environ.pop("VK_NOT_SET", None)
        if case["env"] is None:
            os.environ.pop("ASPHALT_SERVICE", None)
        else:
            os.environ["ASPHALT_SERVICE"] = case["env"]
        args = ["run"] + [paths[f] for f in case["files"]]
        for s in case["sets"]:
            args += ["--set", s[0]]
        if case["service"]:
            args += ["--service", case["service"]]
        err: Any = None
        try:
            cli.main(args=args, standalone_mode=False)
        except SystemExit as e:
            err = e if e.code not in (0, None) else None
        except BaseException as e:  # noqa: BLE001
            err = e
        finally:
            cli.run_application = old  # type: ignore[assignment]
            if old_env is None:
                os.environ.pop("ASPHALT_SERVICE", None)
            else:
                os.environ["ASPHALT_SERVICE"] = old_env
        return rec.calls, err

    def work(self, unit: dict, tier: str) -> dict:
        import shutil

        s = new_summary()
        d, paths = self.setup_files()
        kh: dict = {}
        try:
            cs = cases(tier)[unit["lo"]:unit["hi"]]
            for case in cs:
                exp = reference(case["files"], [tuple(x) for x in case["sets"]], case["service"], case["env"])
                if isinstance(exp, str) and exp.startswith("<undefined"):
                    continue
                calls, err = self.invoke(paths, case)
                if exp != FAIL and case.get("_envval") != "envvalue":
                    exp = subst_env(exp, case["_envval"])
                s["evaluations"] += 1
                if sum(1 for x in (case["files"], case["sets"], case["service"] or case["env"]) if x) >= 2:
                    s["nontrivial"] += 1
                fails = []
                if exp == FAIL:
                    if calls:
                        fails.append(("started-anyway", f"the command had to fail but run_application was called with {calls[0]!r}"))
                    elif err is None:
                        fails.append(("no-error", "the command had to fail but ended without error"))
                else:
                    if err is not None or len(calls) != 1:
                        fails.append(("failed", f"expected {exp!r}; the command ended with {err!r} and {len(calls)} call(s)"))
                    else:
                        got = calls[0]
                        if got["type"] != exp["type"] or not deep_same(got["config"], exp["config"]):
                            fails.append(("component-config", f"root component: got ({got['type']!r}, {got['config']!r}), expected ({exp['type']!r}, {exp['config']!r})"))
                        if not deep_same(got["kwargs"], exp["kwargs"]):
                            fails.append(("options", f"keyword arguments: got {got['kwargs']!r}, expected {exp['kwargs']!r}"))
                if fails:
                    for f in {f[0] for f in fails}:
                        kh[f] = kh.get(f, 0) + 1
                    if len(s["violations"]) < 4:
                        s["violations"].append({"keys": sorted({f[0] for f in fails}), "fails": [list(f) for f in fails], "program": case,
                                                "choices": [], "trace": [], "outcome": "done"})
                if len(s["samples"]) < 1 and len(case["files"]) == 2 and case["sets"]:
                    s["samples"].append({"case": case, "expected": repr(exp)[:600]})
            if unit["lo"] == 0:
                self.end_to_end(paths, s, kh)
        finally:
            shutil.rmtree(d, ignore_errors=True)
        s["transitions"] = s["evaluations"]
        s["states"] = s["evaluations"]
        s["distinct"] = s["evaluations"]
        s["outcomes"] = {"done": s["evaluations"]}
        s["keyhist"] = kh
        return s

    def end_to_end(self, paths: dict, s: dict, kh: dict) -> None:
        """A sample of layouts through the real run_application with a recording CLI root component."""
        import asphalt.core._cli as cli
        import vkplugins.comps as vc

        e2e = [
            (["D1"], ["component.type=vkplugins.comps:CliRoot"], None, None),
            (["D1", "D2"], ["component.type=ep_cli", "component.nested.y.z=9"], None, None),
            (["D1", "D4"], ["component.type=vkplugins.comps:CliRoot", "component.dotted\\.key=1"], "default", None),
            (["S3"], ["services.only.component.type=ep_cli"], None, None),
            (["S1"], ["services.s1.component.type=vkplugins.comps:CliRoot", "services.s2.component.type=ep_cli"], None, "s1"),
            (["S1"], ["services.s1.component.type=vkplugins.comps:CliRoot", "services.s2.component.type=ep_cli"], "s2", "s1"),
            (["D10"], ["component.type=ep_cli"], None, None),
        ]
        for files, sets, sopt, senv in e2e:
            case = {"files": files, "sets": [[x] for x in sets], "service": sopt, "env": senv}
            parsed = []
            for x in sets:
                k, v = x.split("=", 1)
                import re as _re

                keys = [p.replace("\\.", ".") for p in _re.split(r"(?<!\\)\.", k)]
                val: Any = v
                if v.isdigit():
                    val = int(v)
                parsed.append((x, keys, val))
            exp = reference(files, parsed, sopt, senv)
            vc.REC.clear()
            old_env = os.environ.get("ASPHALT_SERVICE")
            os.environ["VK_ENVVAR"] = "envvalue"
            if senv is None:
                os.environ.pop("ASPHALT_SERVICE", None)
            else:
                os.environ["ASPHALT_SERVICE"] = senv
            args = ["run"] + [paths[f] for f in files]
            for x in sets:
                args += ["--set", x]
            if sopt:
                args += ["--service", sopt]
            err = None
            import logging as _logging

            try:
                exp_kwargs = dict(exp["kwargs"])
                # run for real, but keep logging quiet: the logging config is part of kwargs and is checked by the recorder cases
                cli.main(args=args + ["--set", "logging=null"], standalone_mode=False)
            except SystemExit as e:
                err = e if e.code not in (0, None) else None
            except BaseException as e:  # noqa: BLE001
                err = e
            finally:
                _logging.getLogger().handlers[:] = [h for h in _logging.getLogger().handlers if not isinstance(h, _logging.StreamHandler)] or _logging.getLogger().handlers
                if old_env is None:
                    os.environ.pop("ASPHALT_SERVICE", None)
                else:
                    os.environ["ASPHALT_SERVICE"] = old_env
            s["evaluations"] += 1
            s["nontrivial"] += 1
            ctor = [r for r in vc.REC if r[0] == "cli-ctor"]
            ran = [r for r in vc.REC if r[0] == "cli-run"]
            fails = []
            if err is not None or len(ctor) != 1 or len(ran) != 1:
                fails.append(("failed", f"end-to-end: error {err!r}, constructor calls {len(ctor)}, run() calls {len(ran)}"))
            elif not deep_same(ctor[0][1], exp["config"]):
                fails.append(("component-config", f"end-to-end: root component constructed with {ctor[0][1]!r}, expected {exp['config']!r}"))
            if fails:
                for f in {f[0] for f in fails}:
                    kh[f] = kh.get(f, 0) + 1
                s["violations"].append({"keys": sorted({f[0] for f in fails}), "fails": [list(f) for f in fails], "program": dict(case, e2e=True),
                                        "choices": [], "trace": [], "outcome": "done"})

    def replay(self, rec: dict) -> int:
        import shutil

        case = rec["program"]
        d, paths = self.setup_files()
        try:
            exp = reference(case["files"], [tuple(x) for x in case["sets"]] if not case.get("e2e") else [], case["service"], case["env"])
            calls, err = self.invoke(paths, case)
            print("case:", case)
            print("expected:", exp)
            print("got:", calls, "error:", repr(err))
            bad = (exp == FAIL and (calls or err is None)) or (exp != FAIL and (err is not None or len(calls) != 1 or calls[0]["type"] != exp["type"]
                                                                               or not deep_same(calls[0]["config"], exp["config"]) or not deep_same(calls[0]["kwargs"], exp["kwargs"])))
        finally:
            shutil.rmtree(d, ignore_errors=True)
        if bad:
            print(f"VIOLATION property=C16 replay={rec.get('_path', '')}")
            return 1
        print("no violation on this tree")
        return 0


CHECK = C16()
