"""C05 - component trees start in order: construct all, prepare, children, then start (engine E1)."""

from __future__ import annotations

import copy
import itertools
from typing import Any

from ..comptree import RA, RB, Tree, lab, paths
from ..explore import E1Check


def node(alias: str, *children: dict) -> dict:
    return {"alias": alias, "children": list(children)}


SHAPES = {
    "r": node(""),
    "r(a)": node("", node("a")),
    "r(a,b)": node("", node("a"), node("b")),
    "r(a(g))": node("", node("a", node("g"))),
    "r(a,b,c)": node("", node("a"), node("b"), node("c")),
    "r(a(g),b)": node("", node("a", node("g")), node("b")),
    "r(b,a(g))": node("", node("b"), node("a", node("g"))),
    "r(a(g,h))": node("", node("a", node("g"), node("h"))),
    "r(a(g(k)))": node("", node("a", node("g", node("k")))),
    "r(a(g),b(h))": node("", node("a", node("g")), node("b", node("h"))),
    "r(a(g,h),b)": node("", node("a", node("g"), node("h")), node("b")),
    "r(a,b,c,d)": node("", node("a"), node("b"), node("c"), node("d")),
}
QUICK_SHAPES = ["r", "r(a)", "r(a,b)", "r(a(g))", "r(a,b,c)", "r(a(g),b)", "r(b,a(g))", "r(a(g,h))", "r(a(g(k)))"]
PATTERNS = ("both", "noprep", "nostart", "leaves", "alt", "inherited", "awaitable")


def has(pattern: str, path: str, nd: dict, phase: str, depth: int) -> bool:
    if pattern in ("both", "inherited", "awaitable"):
        return True
    if pattern == "noprep":
        return phase == "start"
    if pattern == "nostart":
        return phase == "prepare"
    if pattern == "leaves":
        return not nd.get("children")
    if pattern == "alt":
        return (phase == "prepare") == (depth % 2 == 0)
    raise AssertionError(pattern)


def resname(path: str, phase: str) -> str:
    return (path.replace(".", "_") or "root") + "_" + phase


def order_edges(spec: dict) -> list[tuple]:
    """'u must have finished before v can finish' edges implied by the start-up order."""
    edges = []
    for p, nd in paths(spec):
        edges.append(((p, "prepare"), (p, "start")))
        for c in nd.get("children", []):
            cp = f"{p}.{c['alias']}" if p else c["alias"]
            edges.append(((p, "prepare"), (cp, "prepare")))
            edges.append(((p, "prepare"), (cp, "start")))
            edges.append(((cp, "start"), (p, "start")))
            edges.append(((cp, "prepare"), (p, "start")))
    return edges


def certainly_before(spec: dict, wp: str, wph: str, pp: str, pph: str) -> bool:
    """the provider's phase has certainly completed when the waiter's phase begins (so even an optional lookup must hit)"""
    parent_of_w = wp.rsplit(".", 1)[0] if "." in wp else ("" if wp else None)
    if parent_of_w == pp and pph == "prepare" and wp != pp:
        return True  # a child needs what its parent's prepare() added
    parent_of_p = pp.rsplit(".", 1)[0] if "." in pp else ("" if pp else None)
    if parent_of_p == wp and wph == "start" and wp != pp:
        return True  # a parent's start() needs what a child added
    return False


def acyclic(edges: list[tuple]) -> bool:
    import collections

    g = collections.defaultdict(list)
    nodes = set()
    for a, b in edges:
        g[a].append(b)
        nodes.add(a)
        nodes.add(b)
    state: dict = {}

    def dfs(n) -> bool:
        state[n] = 1
        for m in g[n]:
            if state.get(m) == 1:
                return False
            if m not in state and not dfs(m):
                return False
        state[n] = 2
        return True

    return all(dfs(n) for n in nodes if n not in state)


def build_program(shape: str, pattern: str, deps: tuple, extras: str, pos: str = "before", pub: str = "res") -> dict | None:
    import copy

    spec = copy.deepcopy(SHAPES[shape])
    present = set()
    for p, nd in paths(spec):
        depth = 0 if p == "" else p.count(".") + 1
        for phase in ("prepare", "start"):
            if has(pattern, p, nd, phase, depth):
                present.add((p, phase))
    for (wp, wph, pp, pph) in deps:
        if (wp, wph) not in present or (pp, pph) not in present:
            return None
    edges = order_edges(spec) + [((pp, pph), (wp, wph)) for (wp, wph, pp, pph) in deps]
    if not acyclic(edges):
        return None
    providers = {(pp, pph) for (_wp, _wph, pp, pph) in deps}
    for p, nd in paths(spec):
        if pattern == "inherited":
            nd["inherit"] = True
        if pattern == "awaitable":
            nd["awaitable_methods"] = True
        for phase in ("prepare", "start"):
            if (p, phase) not in present:
                nd[phase] = None
                continue
            steps: list = [("td", f"td:{p}:{phase}")]
            gets = [("get", "RA", resname(pp, pph), api, certainly_before(spec, wp, wph, pp, pph) and pub == "res" and pos == "opt", f"{wp}:{wph}<-{pp}:{pph}")
                    for (wp, wph, pp, pph), api in zip(deps, itertools.cycle(("shortcut", "inject", "method"))) if (wp, wph) == (p, phase)]
            if pos == "subfirst" and gets:
                steps.append(("subblock",))  # the component first enters and leaves a context of its own
            if pos in ("before", "opt", "subfirst"):
                steps += gets
            steps.append(("gate", "g"))
            if pos == "after":
                steps += gets
            if pub == "falsy" and (p, phase) in providers:
                steps.append(("add", "RAF", resname(p, phase), f"{p}:{phase}"))  # a falsy value is still a resource
            elif pub != "res" and (p, phase) in providers:
                steps.append(("addf", "RA", resname(p, phase), f"{p}:{phase}", pub))
            else:
                steps.append(("add", "RA", resname(p, phase), f"{p}:{phase}", extras == "tdres"))
            if extras == "svc" and phase == "start" and not nd.get("children"):
                steps.append(("svc", f"svc:{p}", [("forever",)]))
            if extras == "gen" and phase == "start":
                nd["gen_start"] = True
            if extras == "addc":
                steps.append(("addc",))
            if extras == "subctx" and phase == "start" and (p, "prepare") in present:
                # in a context the component opens for itself, what its own prepare() registered is visible
                steps.append(("subget", "RA", resname(p, "prepare"), f"{p}:start<-{p}:prepare"))
            nd[phase] = steps
    return {"shape": shape, "pattern": pattern, "deps": [list(d) for d in deps], "extras": extras, "pos": pos, "pub": pub, "tree": spec}


def build_twofail(shape: str, phase: str, parent_has_start: bool) -> dict | None:
    """Two sibling leaves fail in the same scheduling round (both raise at once when they are started): whatever
    start_component does with the two errors, no ancestor's start() may run and the root is not returned."""
    import copy

    spec = copy.deepcopy(SHAPES[shape])
    target = None
    for p, nd in paths(spec):
        leaves_ = [c for c in nd.get("children", []) if not c.get("children")]
        if len(leaves_) >= 2:
            target = (p, nd, leaves_[:2])
            break
    if target is None:
        return None
    failing = []
    for p, nd in paths(spec):
        nd["prepare"] = None
        nd["start"] = [("add", "RA", resname(p, "start"), f"{p}:start")] if (parent_has_start or not nd.get("children")) else None
    tp, tnd, two = target
    for c in two:
        cp = f"{tp}.{c['alias']}" if tp else c["alias"]
        c[phase] = [("fail", "E")]
        if phase == "prepare":
            c["start"] = [("add", "RA", resname(cp, "start"), f"{cp}:start")]
        failing.append(cp)
    return {"shape": shape, "twofail": phase, "failing": failing, "tree": spec, "pattern": "twofail", "deps": [], "extras": "plain", "pos": "before", "pub": "res"}


def build_alias(variant: int) -> dict:
    """r(k/n(g), w): the kind/name component publishes a default-named resource in prepare() (stays "default") and one in start()
    (appears as "n"); its child and its sibling look both up."""
    kn_prepare = [("add", "RA", "default", "kn:prepare"), ("gate", "g")] if variant & 1 else [("gate", "g"), ("add", "RA", "default", "kn:prepare")]
    kn = {"alias": "k/n", "children": [{"alias": "g", "children": [], "prepare": None,
                                        "start": [("get", "RA", "default", "nowait", False, "g:start<-kn:prepare"),
                                                  ("add", "RB", "default", "g:start")]}],  # a plain-alias child: stays "default"
          "prepare": kn_prepare,
          "start": [("gate", "g")] + ([("subblock",)] if variant & 1 else []) + [("add", "RA", "default", "kn:start")]}
    w = {"alias": "w", "children": [],
         "prepare": [("get", "RA", "default", "shortcut" if variant & 2 else "inject", False, "w:prepare<-kn:prepare")],
         "start": [("get", "RA", "n", "method", False, "w:start<-kn:start")]}
    kids = [kn, w] if variant & 4 else [w, kn]
    spec = {"alias": "", "children": kids, "prepare": None, "start": None}
    return {"shape": "r(k/n(g),w)", "alias_prog": variant, "tree": spec, "pattern": "alias", "deps": [], "extras": "plain", "pos": "before", "pub": "res"}


def candidate_deps(shape: str) -> list[tuple]:
    spec = SHAPES[shape]
    ps = paths(spec)
    parent = {}
    for p, nd in ps:
        for c in nd.get("children", []):
            parent[f"{p}.{c['alias']}" if p else c["alias"]] = p
    singles = []
    for a, _ in ps:
        for b, _ in ps:
            if a == b:
                continue
            sib = parent.get(a) is not None and parent.get(a) == parent.get(b)
            child_of = parent.get(a) == b  # a is a child of b
            parent_of = parent.get(b) == a
            for wph in ("prepare", "start"):
                for pph in ("prepare", "start"):
                    if sib:
                        singles.append((a, wph, b, pph))
                    elif child_of and pph == "prepare":
                        singles.append((a, wph, b, pph))  # child needs what the parent's prepare added
                    elif parent_of and wph == "start":
                        singles.append((a, wph, b, pph))  # parent's start needs what a child added
    return singles


class C05(E1Check):
    id = "C05"
    assumptions = [
        "<= 4 components (quick) / <= 5 (thorough), depth <= 3; each phase has one gate (its duration)",
        "start_component(timeout=None): the watchdog belongs to C07",
        "dependencies are acyclic w.r.t. the phase order graph (cyclic ones dead-lock legitimately and are not generated)",
    ]

    def rule(self, tier: str) -> str:
        return ("program = tree shape x which components implement prepare/start x acyclic resource dependencies x extras; executions = "
                "all completion orders of the phase gates (+ preemptive injections within the deviation bound); non-trivial = >= 2 "
                "environment events or an injection; distinct = distinct complete traces")

    def bounds(self, tier: str) -> dict:
        return {"shapes": QUICK_SHAPES if tier == "quick" else list(SHAPES), "deviation_bound": 0 if tier == "quick" else "1 for <= 3 components, 0 above",
                "thinning": "thorough: every 6th program of the 5-component shape r(a,b,c,d)"}

    def units(self, tier: str, seed: int) -> list:
        progs = []
        shapes = QUICK_SHAPES if tier == "quick" else list(SHAPES)
        for shape in shapes:
            singles = candidate_deps(shape)
            n_before = len(progs)
            for pattern in PATTERNS:
                depsets: list[tuple] = [()]
                depsets += [(d,) for d in singles]
                if pattern == "both":
                    pairs = list(itertools.combinations(singles, 2))
                    step = 1 if tier == "thorough" else max(1, len(pairs) // 25)
                    depsets += [tuple(p) for p in pairs[::step]]
                for deps in depsets:
                    for extras in (("plain", "tdres", "svc", "gen", "addc", "subctx") if not deps else ("plain",)):
                        for pos in (("before", "after", "opt", "subfirst") if deps else ("before",)):
                            for pub in (("res", "sync", "async", "union", "falsy") if len(deps) == 1 else ("res",)):
                                if pattern in ("inherited", "awaitable") and (pub != "res" or pos != "before" or extras == "gen"):
                                    continue
                                if pos == "opt" and (pub != "res" or not all(certainly_before(SHAPES[shape], *d) for d in deps)):
                                    continue
                                if pos == "subfirst" and (pub != "res" or len(deps) != 1):
                                    continue
                                p = build_program(shape, pattern, deps, extras, pos, pub)
                                if p is not None:
                                    progs.append(p)
            if shape == "r(a,b,c,d)":
                # four siblings: 4! completion orders per phase make this shape 90 % of the tier's cost (measured 12 400 of 13 300
                # core-seconds); every 6th program of its grid is kept
                progs[n_before:] = progs[n_before:][::6]
            for phase in ("prepare", "start"):
                for phs in (True, False):
                    p = build_twofail(shape, phase, phs)
                    if p is not None:
                        progs.append(p)
        progs += [build_alias(v) for v in range(8)]
        for shape in ("r", "r(a)", "r(a,b)", "r(a(g))"):
            for extras in ("gen", "tdres", "svc"):
                p = build_program(shape, "both", (), extras, "before", "res")
                if p is not None:
                    progs.append(dict(p, cancel_leave=True))
        # sibling dependencies while a foreign subscriber of the surrounding context has a full queue
        for shape in ("r(a,b)", "r(a(g),b)"):
            for d in candidate_deps(shape)[::3]:
                p = build_program(shape, "both", (d,), "plain", "before", "res")
                if p is not None:
                    progs.append(dict(p, audit=True))
        # second use: the same tree is started in two successive sub-contexts of one long-lived context; what the components
        # published (resources and factories) lives and dies with the context start_component() ran in
        for shape in ("r(a,b)", "r(a(g),b)"):
            for d in candidate_deps(shape)[::2]:
                for pub in ("res", "sync", "async"):
                    p = build_program(shape, "both", (d,), "plain", "before", pub)
                    if p is not None:
                        progs.append(dict(p, twice=True))
                        if pub == "res":
                            # ... and with the root's children declared by the CALLER'S configuration mapping (the same object both times)
                            progs.append(dict(p, twice=True, twice_cfg=True))
        return progs

    def bound(self, tier: str, program: Any) -> int:
        if tier == "quick":
            return 0
        # one preemptive injection for trees of <= 3 components; larger trees are explored over all gate orders only
        return 1 if len(paths(program["tree"])) <= 3 else 0

    def max_execs(self, tier: str, program: Any) -> int:
        return 3000 if tier == "quick" else 12000

    def hash_modes(self, tier: str, program: Any) -> tuple:
        return (0,)

    async def main(self, env: Any, program: dict) -> None:
        from asphalt.core import Context, start_component

        if program.get("twice_cfg"):
            for c in program["tree"].get("children", []):
                c["config_only"] = True
        tree = Tree(env, program["tree"])
        qpoints: list[int] = []
        env.quiescent_hooks.append(lambda: qpoints.append(len(env.trace)))
        st: dict[str, Any] = {}
        from contextlib import AsyncExitStack
        import warnings

        import anyio

        if program.get("twice"):
            rounds: list = []
            cfg: dict = {}
            if program.get("twice_cfg"):
                cfg = {"components": {c["alias"]: dict(c.get("kwargs", {}), type=tree.classes[c["alias"]]) for c in program["tree"].get("children", [])}}
            cfg0 = copy.deepcopy(cfg)
            async with Context() as outer:
                for rnd in (1, 2):
                    try:
                        async with Context() as sub:
                            with warnings.catch_warnings():
                                warnings.simplefilter("ignore")
                                await start_component(tree.root_class, cfg, timeout=None)
                            if cfg != cfg0:
                                env.fail("ownership", f"round {rnd}: the caller's configuration changed from {cfg0!r} to {cfg!r}")
                            vis = {n: lab(v) for n, v in sub.get_resources(RA).items()}
                            vis_b = {n: lab(v) for n, v in sub.get_resources(RB).items()}
                        rounds.append((sorted(vis), sorted(vis_b)))
                    except BaseException as e:  # noqa: BLE001
                        env.fail("start-failed", f"round {rnd}: starting the tree in a fresh sub-context failed: {type(e).__name__}: {str(e)[:160]}; caused by {e.__cause__!r}")
                        break
                    for typ, names in ((RA, vis), (RB, vis_b)):
                        for n in names:
                            if outer.get_resource_nowait(typ, n, optional=True) is not None or await outer.get_resource(typ, n, optional=True) is not None:
                                env.fail("ownership", f"round {rnd}: {typ.__name__}/{n} published by a component in the sub-context is still available in the outer context after the sub-context was left")
                if len(rounds) == 2 and rounds[0] != rounds[1]:
                    env.fail("ownership", f"the second start of the same tree made {rounds[1]} visible, the first {rounds[0]}")
                if rounds and not (rounds[0][0] or rounds[0][1]):
                    env.fail("harness", "the tree published nothing")
            return
        leave_scope = anyio.CancelScope()
        with leave_scope:
          async with Context() as ctx, AsyncExitStack() as audit:
              if program.get("audit"):
                  # somebody else listens to the surrounding context with a one-slot queue and never reads (its queue is full)
                  await audit.enter_async_context(ctx.resource_added.stream_events(max_queue_size=1))
                  ctx.add_resource(RB("filler"), "filler")
              try:
                  with warnings.catch_warnings():
                      warnings.simplefilter("ignore")
                      inst = await start_component(tree.root_class, {}, timeout=None)
                  env.log("returned", inst is tree.instances.get(""))
              except BaseException as e:  # noqa: BLE001
                  env.log("start-exc", type(e).__name__, str(e)[:200])
                  st["exc"] = e
              st["visible"] = {n: lab(v) for n, v in ctx.get_resources(RA).items()}
              st["visible_b"] = {n: lab(v) for n, v in ctx.get_resources(RB).items()}
              env.log("leaving")
              if program.get("cancel_leave"):
                  # the surrounding context is left under cancellation: every teardown callback still runs, in reverse order
                  leave_scope.cancel()
                  await anyio.lowlevel.checkpoint()
        env.log("ctx-left")
        self.oracle(env, program, tree, qpoints, st)

    def oracle(self, env: Any, program: dict, tree: Tree, qpoints: list[int], st: dict) -> None:
        tr = env.trace
        fail = env.fail
        spec = program["tree"]
        ps = paths(spec)
        idx: dict[tuple, int] = {}
        counts: dict[tuple, int] = {}
        for i, ev in enumerate(tr):
            if ev[0] in ("ctor",):
                counts[("ctor", ev[1])] = counts.get(("ctor", ev[1]), 0) + 1
                idx.setdefault(("ctor", ev[1]), i)
            elif ev[0] in ("phase+", "phase-", "phase!"):
                k = (ev[0], ev[1], ev[2])
                counts[k] = counts.get(k, 0) + 1
                idx.setdefault(k, i)
        if program.get("twofail"):
            failing = program["failing"]
            if "exc" not in st:
                fail("start-order", f"start_component returned although {program['twofail']}() of {failing} raised and never returned")
            for p, nd in ps:
                if any(f == p or f.startswith(p + ".") or p == "" for f in failing) and p not in failing:
                    if ("phase+", p, "start") in idx:
                        fail("start-order", f"start() of {p!r} was called although {program['twofail']}() of its descendants {failing} never returned")
            for f in failing:
                if program["twofail"] == "prepare" and ("phase+", f, "start") in idx:
                    fail("start-order", f"start() of {f!r} was called although its prepare() raised")
            return
        if "alias_prog" in program:
            if "exc" in st:
                fail("start-failed", f"start_component raised {st['exc']!r}")
                return
            exp_vis = {"default": "kn:prepare", "n": "kn:start"}
            if st.get("visible") != exp_vis:
                fail("ownership", f"resources visible in the surrounding context {st.get('visible')}, expected {exp_vis}")
            if st.get("visible_b") != {"default": "g:start"}:
                fail("ownership", f"RB resources visible in the surrounding context {st.get('visible_b')}, expected {{'default': 'g:start'}}")
            gets = {ev[1]: ev[2] for ev in tr if ev[0] == "get-"}
            for tag in ("g:start<-kn:prepare", "w:prepare<-kn:prepare", "w:start<-kn:start"):
                want = tag.split("<-")[1]
                if gets.get(tag) != want:
                    fail("dependency", f"{tag}: the lookup returned {gets.get(tag)!r}, expected {want!r}")
            if not any(ev[0] == "returned" and ev[1] is True for ev in tr):
                fail("return", "start_component did not return the root instance")
            return
        for ev in tr:
            if ev[0] == "addc-accepted":
                fail("late-child", f"add_component() called from {ev[2]}() of {ev[1]!r} was accepted: the component hierarchy is instantiated before any "
                                   f"prepare()/start() runs, so the new child can never be part of it")
        if "exc" in st:
            fail("start-failed", f"start_component raised {st['exc']!r}")
            return
        first_phase = min([i for (k, i) in idx.items() if k[0] == "phase+"], default=len(tr))
        for p, nd in ps:
            if counts.get(("ctor", p), 0) != 1:
                fail("once", f"constructor of {p!r} ran {counts.get(('ctor', p), 0)} times")
            elif idx[("ctor", p)] > first_phase:
                fail("ctor-order", f"{p!r} was constructed after a prepare()/start() had begun")
            for phase in ("prepare", "start"):
                exp = 1 if nd.get(phase) is not None else 0
                if counts.get(("phase+", p, phase), 0) != exp or counts.get(("phase-", p, phase), 0) != exp:
                    fail("once", f"{phase}() of {p!r} began {counts.get(('phase+', p, phase), 0)} / completed {counts.get(('phase-', p, phase), 0)} times, expected {exp}")
        if env.fails:
            return

        def subtree_events(p: str) -> list[int]:
            pre = p + "." if p else ""
            return [i for (k, i) in idx.items() if k[0] == "phase+" and (k[1] == p or (k[1].startswith(pre) if p else True))]

        def desc_events(p: str) -> list[int]:
            pre = p + "." if p else ""
            return [i for (k, i) in idx.items() if k[0] in ("phase+", "phase-") and k[1] != p and (k[1].startswith(pre) if p else True)]

        for p, nd in ps:
            kids = [(f"{p}.{c['alias']}" if p else c["alias"]) for c in nd.get("children", [])]
            # prepare(c) completes before any of its children begin
            if nd.get("prepare") is not None:
                end = idx[("phase-", p, "prepare")]
                for i in desc_events(p):
                    if i < end:
                        fail("prepare-order", f"a descendant of {p!r} ran before prepare() of {p!r} had completed (trace index {i} < {end})")
            # start(c) only after everything below has returned
            if nd.get("start") is not None:
                beg = idx[("phase+", p, "start")]
                for i in desc_events(p):
                    if i > beg:
                        fail("start-order", f"start() of {p!r} began before a descendant had finished (trace index {i} > {beg})")
                if nd.get("prepare") is not None and idx[("phase-", p, "prepare")] > beg:
                    fail("start-order", f"start() of {p!r} began before its own prepare() finished")
            # children are started concurrently: by the first quiescent point after the first child event
            firsts = {k: min(subtree_events(k), default=None) for k in kids}
            begun = [v for v in firsts.values() if v is not None]
            if len(begun) >= 2:
                t0 = min(begun)
                q = next((x for x in qpoints if x > t0), None)
                if q is not None:
                    for k, v in firsts.items():
                        if v is not None and v >= q:
                            fail("concurrent", f"child {k!r} of {p!r} had not begun at the first quiescent point after its sibling began")
        # return value
        ret = [ev for ev in tr if ev[0] == "returned"]
        if not ret or ret[0][1] is not True:
            fail("return", f"start_component did not return the root instance: {ret}")
        else:
            ri = tr.index(ret[0])
            last = max([i for (k, i) in idx.items() if k[0] in ("phase+", "phase-")], default=-1)
            if ri < last:
                fail("return", "start_component returned before the last prepare()/start() had completed")
        # everything registered is visible in the surrounding context
        exp_vis = {ev[4]: ev[5] for ev in tr if ev[0] == "added"}
        facnames = {ev[4] for ev in tr if ev[0] == "addedf"}
        vis = {n: v for n, v in (st.get("visible") or {}).items() if n not in facnames}
        if vis != exp_vis:
            fail("ownership", f"resources visible in the surrounding context {st.get('visible')} != registered {exp_vis}")
        # what a dependent component received is what the provider published (also through an optional lookup)
        for ev in tr:
            if ev[0] == "get-" and "<-" in str(ev[1]):
                prov = ev[1].split("<-")[1]
                exp_labels = (prov, prov + "#1")
                if ev[2] not in exp_labels:
                    fail("dependency", f"{ev[1]}: the lookup returned {ev[2]!r}, the provider published {prov!r}")
        # torn down in reverse order when that context is left, nothing before
        li = tr.index(("leaving",))
        regs = []
        for ev in tr[:li]:
            if ev[0] == "td-reg":
                regs.append(ev[1])
        tds = [ev[1] for ev in tr if ev[0] == "td"]
        early = [ev[1] for ev in tr[:li] if ev[0] == "td"]
        if early:
            fail("ownership", f"teardown callbacks {early} ran before the surrounding context was left")
        if tds != list(reversed(regs)):
            fail("ownership", f"teardown callbacks ran {tds}, registered {regs}")
        ci = tr.index(("ctx-left",))
        for i, ev in enumerate(tr):
            if ev[0] == "svc-started":
                ends = [j for j, e2 in enumerate(tr) if e2[0] == "svc-" and e2[1] == ev[1]]
                if not ends or ends[0] > ci or ends[0] < li:
                    fail("ownership", f"service task {ev[1]} ended at {ends}, context left at {ci}")


CHECK = C05()
