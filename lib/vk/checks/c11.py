"""C11 - every (instance, signal attribute) pair is an independent channel (engines E3/E2).

For every class shape, every number of instances, every order of first accesses of the (instance,
attribute) pairs and every subset of subscribed channels, one event is dispatched on every channel
and the delivery matrix is compared with the identity matrix; plus wrong-class rejection, class
level access and liveness of the owner.
"""

from __future__ import annotations

import gc
import itertools
import weakref
from contextlib import AsyncExitStack
from dataclasses import dataclass
from typing import Any

import anyio

from ..explore import execute, new_summary, run_main_asyncio

SHAPES = ("one", "two-same", "two-diff", "sub-adds", "sub-inherits", "sub-overrides", "slots", "value-equal", "three", "falsy", "mangled", "nonreflexive", "base-event")


def build_shape(shape: str) -> tuple[list[type], dict]:
    """returns (classes to instantiate, {class: {attr: event class}})"""
    from asphalt.core import Event, Signal

    class E1(Event):
        pass

    class E2(Event):
        pass

    if shape == "one":
        class C:
            sig = Signal(E1)

        return [C], {C: {"sig": E1}}
    if shape == "two-same":
        class C:  # type: ignore[no-redef]
            sig_a = Signal(E1)
            sig_b = Signal(E1)

        return [C], {C: {"sig_a": E1, "sig_b": E1}}
    if shape == "two-diff":
        class C:  # type: ignore[no-redef]
            sig_a = Signal(E1)
            sig_b = Signal(E2)

        return [C], {C: {"sig_a": E1, "sig_b": E2}}
    if shape == "three":
        class C:  # type: ignore[no-redef]
            x = Signal(E1)
            y = Signal(E2)
            z = Signal(E1)

        return [C], {C: {"x": E1, "y": E2, "z": E1}}
    if shape == "sub-adds":
        class Base:
            sig_a = Signal(E1)

        class Sub(Base):
            sig_b = Signal(E2)

        return [Base, Sub], {Base: {"sig_a": E1}, Sub: {"sig_a": E1, "sig_b": E2}}
    if shape == "sub-inherits":
        class Base:  # type: ignore[no-redef]
            sig_a = Signal(E1)

        class Sub(Base):  # type: ignore[no-redef]
            pass

        return [Base, Sub], {Base: {"sig_a": E1}, Sub: {"sig_a": E1}}
    if shape == "sub-overrides":
        class Base:  # type: ignore[no-redef]
            sig_a = Signal(E1)

        class Sub(Base):  # type: ignore[no-redef]
            sig_a = Signal(E2)

        return [Base, Sub], {Base: {"sig_a": E1}, Sub: {"sig_a": E2}}
    if shape == "slots":
        class C:  # type: ignore[no-redef]
            __slots__ = ("__weakref__", "v")
            sig_a = Signal(E1)
            sig_b = Signal(E2)

        return [C], {C: {"sig_a": E1, "sig_b": E2}}
    if shape == "mangled":
        # private (name-mangled) signals declared under the same source name in a class and its subclass are two attributes
        class Base:  # type: ignore[no-redef]
            __changed = Signal(E1)

        class Sub(Base):  # type: ignore[no-redef]
            __changed = Signal(E2)

        return [Sub], {Sub: {"_Base__changed": E1, "_Sub__changed": E2}}
    if shape == "falsy":
        class C:  # type: ignore[no-redef]
            """an owner that is falsy (an empty container): still an instance, not the class"""

            sig_a = Signal(E1)
            sig_b = Signal(E2)

            def __len__(self) -> int:
                return 0

        return [C], {C: {"sig_a": E1, "sig_b": E2}}
    if shape == "value-equal":
        @dataclass(frozen=True)
        class C:  # type: ignore[no-redef]
            v: int = 1
            sig = Signal(E1)  # type: ignore[misc]

        C.sig = Signal(E1)  # a dataclass field default would be copied; declare the signal on the class itself
        C.sig.__set_name__(C, "sig")
        return [C], {C: {"sig": E1}}
    if shape == "nonreflexive":
        class C:  # type: ignore[no-redef]
            """an owner that is not even equal to itself (a value object holding a NaN): still one owner per instance"""

            sig_a = Signal(E1)
            sig_b = Signal(E2)

            def __eq__(self, other: object) -> bool:
                return False

            def __hash__(self) -> int:
                return id(self)

        return [C], {C: {"sig_a": E1, "sig_b": E2}}
    if shape == "base-event":
        class C:  # type: ignore[no-redef]
            """a catch-all channel declared for the base Event class next to a specific one"""

            anything = Signal(Event)
            specific = Signal(E1)

        return [C], {C: {"anything": Event, "specific": E1}}
    raise AssertionError(shape)


class C11:
    id = "C11"
    engine = "E3"
    level = "model_checking"
    backends = ["asyncio (controlled loop, default schedule)"]
    assumptions = [
        "owner instances are hashable and weak-referenceable (the statement does not cover others)",
        "liveness of the owner is checked with gc.collect() on CPython",
        "<= 6 channels; all first-access orders up to 4 channels, rotations and reversals beyond",
    ]

    def rule(self, tier: str) -> str:
        return ("case = class shape x instances per class x order of first accesses of the (instance, attribute) pairs x subset of channels with "
                "a subscriber; in each case one event is dispatched on every channel and the delivery matrix is compared; non-trivial = at least "
                "two channels and one subscriber; distinct by construction")

    def bounds(self, tier: str) -> dict:
        return {"shapes": SHAPES, "instances_per_class": (1, 2) if tier == "quick" else (1, 2, 3)}

    def units(self, tier: str, seed: int) -> list:
        units = []
        for shape in SHAPES:
            for n in ((1, 2) if tier == "quick" else (1, 2, 3)):
                units.append({"shape": shape, "n": n})
        units.append({"reuse": True})
        return units

    def run(self, env: Any, program: Any) -> None:
        run_main_asyncio(env, self.main, env, program)

    def verdict(self, env: Any, program: Any, outcome: str) -> None:
        if outcome != "done":
            env.fail("harness", f"{outcome}: {env.data.get('escaped_tb', '')}")

    def work(self, unit: dict, tier: str) -> dict:
        if unit.get("reuse"):
            from ..reuse import summary_for

            return summary_for("signal", "C11")
        from ..explore import Chooser, reset_determinism
        from ..vloop import Env

        env = Env(Chooser([]), 0)
        env.horizon = 10**9
        reset_determinism(0)
        s = new_summary()
        try:
            self.run(env, {"unit": unit, "tier": tier})
        except BaseException as e:  # noqa: BLE001
            import traceback

            s["errors"].append({"kind": "crash", "tb": "".join(traceback.format_exception(e))[-2000:]})
            return s
        res = env.data["res"]
        s["evaluations"] = res["cases"]
        s["transitions"] = res["dispatches"]
        s["states"] = res["cases"]
        s["distinct"] = res["cases"]
        s["nontrivial"] = res["nontrivial"]
        s["outcomes"] = {"done": res["cases"]}
        s["samples"] = res["samples"][:1]
        s["extra"] = {"id_reuse_not_achieved": res.get("not_covered", 0)}
        kh: dict[str, int] = {}
        for v in res["violations"]:
            kh[v["keys"][0]] = kh.get(v["keys"][0], 0) + 1
        s["keyhist"] = kh
        s["violations"] = res["violations"][:4]
        return s

    async def main(self, env: Any, program: dict) -> None:
        unit = program["unit"]
        res = env.data["res"] = {"cases": 0, "dispatches": 0, "nontrivial": 0, "violations": [], "samples": []}
        classes, sigmap = build_shape(unit["shape"])
        chans_proto = []
        for ci, cls in enumerate(classes):
            for k in range(unit["n"]):
                for attr in sigmap[cls]:
                    chans_proto.append((ci, k, attr))
        nch = len(chans_proto)
        if nch <= 4:
            orders = list(itertools.permutations(range(nch)))
        else:
            base = list(range(nch))
            orders = []
            for r in range(nch):
                rot = base[r:] + base[:r]
                orders.append(tuple(rot))
                orders.append(tuple(reversed(rot)))
            orders.append(tuple(base[::2] + base[1::2]))
        subsets = list(itertools.product((False, True), repeat=nch)) if nch <= 6 else [tuple(True for _ in range(nch))]
        if program["tier"] == "quick" and len(orders) * len(subsets) > 1500:
            subsets = [s for i, s in enumerate(subsets) if sum(s) in (0, 1, nch - 1, nch) or i % 5 == 0]
        for order in orders:
            for subs in subsets:
                try:
                    fails = await self.case(env, unit, order, subs, res)
                except Exception as e:  # noqa: BLE001 - using a bound signal of a valid owner must not raise
                    fails = [("unusable", f"using the signals of shape {unit['shape']} raised {e!r}")]
                res["cases"] += 1
                if nch >= 2 and any(subs):
                    res["nontrivial"] += 1
                if fails and len(res["violations"]) < 50:
                    res["violations"].append({"keys": sorted({f[0] for f in fails}), "fails": [list(f) for f in fails[:4]],
                                              "program": {"shape": unit["shape"], "n": unit["n"], "order": list(order), "subs": list(subs)},
                                              "choices": [], "trace": [], "outcome": "done"})
                elif fails:
                    res["violations"].append({"keys": sorted({f[0] for f in fails}), "fails": [], "program": {}, "choices": [], "trace": [], "outcome": "done"})
        for part in (self.liveness, self.reuse_and_copy, self.threads):
            try:
                await part(env, unit, res)
            except Exception as e:  # noqa: BLE001 - using the signals of a valid owner must not raise
                res["violations"].append({"keys": ["unusable"], "fails": [["unusable", f"using the signals of shape {unit['shape']} raised {e!r} ({[repr(x) for x in getattr(e, 'exceptions', [])][:2]})"]],
                                          "program": {"shape": unit["shape"], "part": part.__name__}, "choices": [], "trace": [], "outcome": "done"})

    async def case(self, env: Any, unit: dict, order: tuple, subs: tuple, res: dict) -> list:
        from asphalt.core import Event, Signal, UnboundSignal

        fails: list[tuple[str, str]] = []
        classes, sigmap = build_shape(unit["shape"])
        insts = {(ci, k): cls() for ci, cls in enumerate(classes) for k in range(unit["n"])}
        chans = []
        for ci, cls in enumerate(classes):
            for k in range(unit["n"]):
                for attr in sigmap[cls]:
                    chans.append((ci, k, attr))
        bound: dict[tuple, Any] = {}
        for i in order:
            ci, k, attr = chans[i]
            bound[chans[i]] = getattr(insts[(ci, k)], attr)
        # identity and distinctness
        for ch in chans:
            ci, k, attr = ch
            again = getattr(insts[(ci, k)], attr)
            if again is not bound[ch]:
                fails.append(("identity", f"{ch}: a second access returned a different bound signal"))
            if not isinstance(again, Signal):
                fails.append(("identity", f"{ch}: access returned {again!r}"))
        for a, b in itertools.combinations(chans, 2):
            if bound[a] is bound[b]:
                fails.append(("shared", f"channels {a} and {b} share one bound signal (first-access order {[chans[i] for i in order]})"))
        if len(res["samples"]) < 1:
            res["samples"].append({"shape": unit["shape"], "instances": unit["n"], "first_access_order": [list(chans[i]) for i in order], "subscribed": list(subs)})
        received: dict[tuple, list] = {ch: [] for ch in chans}

        async def consumer(ch: tuple, stream: Any) -> None:
            async for ev in stream:
                received[ch].append(ev)

        async with AsyncExitStack() as stack:
            streams = {}
            for ch, sub in zip(chans, subs):
                if sub:
                    streams[ch] = await stack.enter_async_context(bound[ch].stream_events())
            sent: dict[tuple, Any] = {}
            async with anyio.create_task_group() as tg:
                for ch, stream in streams.items():
                    tg.start_soon(consumer, ch, stream)
                await anyio.lowlevel.checkpoint()
                for ch in chans:
                    ci, k, attr = ch
                    evcls = sigmap[classes[ci]][attr]
                    ev = evcls()
                    sent[ch] = ev
                    try:
                        bound[ch].dispatch(ev)
                        res["dispatches"] += 1
                    except BaseException as e:  # noqa: BLE001
                        fails.append(("dispatch", f"dispatch on {ch} raised {e!r}"))
                        continue
                    if ev.source is not insts[(ci, k)] or ev.topic != attr:
                        fails.append(("stamp", f"event dispatched on {ch} carries source {ev.source!r} topic {ev.topic!r}"))
                    # not an event at all: the event class itself, a string
                    for junk in (evcls, "event"):
                        try:
                            bound[ch].dispatch(junk)
                            fails.append(("type", f"dispatch({junk!r}) on {ch} was accepted"))
                        except TypeError:
                            pass
                        except BaseException as e:  # noqa: BLE001
                            fails.append(("type", f"dispatch({junk!r}) on {ch} raised {e!r} instead of TypeError"))
                    # wrong event class
                    others = {c for m in sigmap.values() for c in m.values()} - {evcls}
                    for oc in others:
                        if issubclass(oc, evcls) or issubclass(evcls, oc):
                            continue
                        try:
                            bound[ch].dispatch(oc())
                            fails.append(("type", f"dispatch of a {oc.__name__} on {ch} (event class {evcls.__name__}) was accepted"))
                        except TypeError:
                            pass
                        except BaseException as e:  # noqa: BLE001
                            fails.append(("type", f"dispatch of a wrong event class on {ch} raised {e!r} instead of TypeError"))
                # one event object relayed to another channel of the same event class: stamped by that dispatch, delivered there
                relayed: dict[tuple, Any] = {}
                if len(chans) >= 2 and chans[0] in sent:
                    c0 = chans[0]
                    ev0 = sent[c0]
                    for ch in chans[1:]:
                        ci, k, attr = ch
                        if sigmap[classes[ci]][attr] is sigmap[classes[c0[0]]][c0[2]] and ch in sent:
                            try:
                                bound[ch].dispatch(ev0)
                            except BaseException as e:  # noqa: BLE001
                                fails.append(("dispatch", f"re-dispatching an event object on {ch} raised {e!r}"))
                                break
                            if ev0.source is not insts[(ci, k)] or ev0.topic != attr:
                                fails.append(("stamp", f"an event first dispatched on {c0} and then on {ch} carries source {ev0.source!r} topic {ev0.topic!r}"))
                            relayed[ch] = ev0
                            break
                for _ in range(3):
                    await anyio.lowlevel.checkpoint()
                tg.cancel_scope.cancel()
            for ch, sub in zip(chans, subs):
                exp = ([sent[ch]] if sub and ch in sent else []) + ([relayed[ch]] if sub and ch in relayed else [])
                got = received[ch]
                if len(got) != len(exp) or any(g is not e for g, e in zip(got, exp)):
                    desc = [next((c for c, s in sent.items() if s is g), "?") for g in got]
                    fails.append(("delivery", f"subscriber of {ch} received the events dispatched on {desc}, expected {[ch] if exp else []}"))
        # the same bound signal after every listener has come and gone
        for ch in chans:
            ci, k, attr = ch
            if getattr(insts[(ci, k)], attr) is not bound[ch]:
                fails.append(("identity", f"{ch}: after its listeners had subscribed and unsubscribed the attribute yields a different bound signal"))
        # class-level use inside a LIST of signals (module-level stream_events / wait_event)
        from asphalt.core import stream_events as _stream_events, wait_event as _wait_event

        some_bound = bound[chans[0]]
        for cls, m in sigmap.items():
            decls = [getattr(cls, a) for a in m if isinstance(getattr(cls, a), Signal)]
            if not decls:
                continue
            for what, lst in (("stream", [decls[0], decls[-1]]), ("stream", [some_bound, decls[0]]), ("wait", [decls[-1], decls[0]]), ("wait", [some_bound, decls[-1]])):
                try:
                    if what == "stream":
                        async with _stream_events(lst):
                            pass
                    else:
                        with anyio.CancelScope() as sc:
                            sc.cancel()
                            await _wait_event(lst)
                        if sc.cancelled_caught:
                            fails.append(("unbound", f"wait_event over a list containing the class-level {cls.__name__} signal started waiting"))
                            continue
                    fails.append(("unbound", f"{what} over a list containing a class-level signal of {cls.__name__} did not raise UnboundSignal"))
                except UnboundSignal:
                    pass
                except BaseException as e:  # noqa: BLE001
                    fails.append(("unbound", f"{what} over a list containing a class-level signal of {cls.__name__} raised {e!r} instead of UnboundSignal"))
        # class-level use
        for cls, m in sigmap.items():
            for attr in m:
                decl = getattr(cls, attr)
                if not isinstance(decl, Signal):
                    fails.append(("unbound", f"{cls.__name__}.{attr} is {decl!r}"))
                    continue
                for what in ("dispatch", "stream", "wait"):
                    try:
                        if what == "dispatch":
                            decl.dispatch(Event())
                        elif what == "stream":
                            async with decl.stream_events():
                                pass
                        else:
                            with anyio.CancelScope() as sc:
                                sc.cancel()
                                await decl.wait_event()
                            if sc.cancelled_caught:
                                fails.append(("unbound", f"wait_event through the class {cls.__name__}.{attr} started waiting"))
                                continue
                        fails.append(("unbound", f"{what} through the class {cls.__name__}.{attr} did not raise UnboundSignal"))
                    except UnboundSignal:
                        pass
                    except BaseException as e:  # noqa: BLE001
                        fails.append(("unbound", f"{what} through the class raised {e!r}"))
        return fails

    async def threads(self, env: Any, unit: dict, res: dict) -> None:
        """The bound signal of (instance, attribute) is one object whichever thread asks for it first (a worker thread that is started
        and joined - nothing runs concurrently): what is dispatched through the one reaches the subscribers of the other."""
        import threading

        classes, sigmap = build_shape(unit["shape"])
        for first in ("thread", "main"):
            for cls in classes:
                inst = cls()
                fails = []
                for attr in sigmap[cls]:
                    box: dict = {}

                    def grab(inst: Any = inst, attr: str = attr, box: dict = box) -> None:
                        box["sig"] = getattr(inst, attr)

                    if first == "main":
                        mine = getattr(inst, attr)
                    t = threading.Thread(target=grab)
                    t.start()
                    t.join()
                    if first == "thread":
                        mine = getattr(inst, attr)
                    theirs = box.get("sig")
                    res["cases"] += 1
                    if theirs is not mine:
                        fails.append(("identity", f"{cls.__name__}().{attr} read in a worker thread and in the main thread ({first} first) are two bound signals"))
                        continue
                    got: list = []
                    async def reader(stream: Any, got: list = got) -> None:
                        got.append(await stream.__anext__())

                    async with mine.stream_events() as stream:
                        ev = getattr(cls, attr).event_class()
                        theirs.dispatch(ev)
                        res["dispatches"] += 1
                        async with anyio.create_task_group() as rtg:
                            rtg.start_soon(reader, stream)
                            for _ in range(3):
                                await anyio.lowlevel.checkpoint()
                            rtg.cancel_scope.cancel()
                    if got != [ev] or getattr(ev, "source", None) is not inst:
                        fails.append(("delivery", f"an event dispatched through the bound signal a worker thread obtained did not reach the main thread's subscriber of {cls.__name__}().{attr}"))
                if fails:
                    res["violations"].append({"keys": sorted({f[0] for f in fails}), "fails": [list(f) for f in fails[:4]],
                                              "program": {"shape": unit["shape"], "threads": first}, "choices": [], "trace": [], "outcome": "done"})

    async def liveness(self, env: Any, unit: dict, res: dict) -> None:
        classes, sigmap = build_shape(unit["shape"])
        for mode in ("untouched", "bound", "subscribed", "dispatched", "listening"):
            for ci, cls in enumerate(classes):
                fails = []
                inst = cls()
                ref = weakref.ref(inst)
                attrs = list(sigmap[cls])
                if mode == "listening":
                    # a task is suspended in a stream of the signal (nothing dispatched yet) when the last reference goes away
                    sig0 = getattr(inst, attrs[0])

                    async def listen(sig0: Any = sig0) -> None:
                        async with sig0.stream_events() as stream:
                            await stream.__anext__()

                    async with anyio.create_task_group() as ltg:
                        ltg.start_soon(listen)
                        del sig0, listen
                        for _ in range(3):
                            await anyio.lowlevel.checkpoint()
                        del inst
                        gc.collect()
                        alive = ref() is not None
                        ltg.cancel_scope.cancel()
                    res["cases"] += 1
                    if alive:
                        res["violations"].append({"keys": ["leak"], "fails": [["leak", f"an instance of {cls.__name__} stayed alive while a listener was suspended on its signal"]],
                                                  "program": {"shape": unit["shape"], "liveness": mode}, "choices": [], "trace": [], "outcome": "done"})
                    continue
                if mode != "untouched":
                    sigs = [getattr(inst, a) for a in attrs]
                    try:
                        if mode == "subscribed":
                            async with sigs[0].stream_events():
                                pass
                        if mode == "dispatched":
                            sigs[0].dispatch(sigmap[cls][attrs[0]]())
                    except Exception as e:  # noqa: BLE001
                        res["violations"].append({"keys": ["unusable"], "fails": [["unusable", f"using a signal of a {cls.__name__} instance ({mode}) raised {e!r}"]],
                                                  "program": {"shape": unit["shape"], "liveness": mode}, "choices": [], "trace": [], "outcome": "done"})
                    del sigs
                del inst
                gc.collect()
                res["cases"] += 1
                if ref() is not None:
                    fails.append(("leak", f"an instance of {cls.__name__} ({mode}) stayed alive after the last reference was dropped"))
                    res["violations"].append({"keys": ["leak"], "fails": [list(f) for f in fails], "program": {"shape": unit["shape"], "liveness": mode},
                                              "choices": [], "trace": [], "outcome": "done"})

    async def reuse_and_copy(self, env: Any, unit: dict, res: dict) -> None:
        """(a) a subscriber outlives its owner, the owner is collected and a new instance is allocated at the same address:
        the new instance's channel must be a fresh one; (b) an instance is copied after its signal has been accessed."""
        import copy as _copy

        classes, sigmap = build_shape(unit["shape"])
        for cls in classes:
            attr = list(sigmap[cls])[0]
            evcls = sigmap[cls][attr]
            for scenario in ("id-reuse", "copy"):
                fails: list = []
                got: list = []

                async def consumer(stream: Any) -> None:
                    async for ev in stream:
                        got.append(ev)

                old = cls()
                sig = getattr(old, attr)
                async with sig.stream_events() as stream:
                    async with anyio.create_task_group() as tg:
                        tg.start_soon(consumer, stream)
                        await anyio.lowlevel.checkpoint()
                        if scenario == "id-reuse":
                            oid = id(old)
                            old_sig_id = id(sig)
                            del old, sig
                            gc.collect()
                            keep = []
                            new = None
                            for _ in range(300):
                                cand = cls()
                                if id(cand) == oid:
                                    new = cand
                                    break
                                keep.append(cand)
                            del keep
                            if new is None:
                                res["not_covered"] = res.get("not_covered", 0) + 1
                            else:
                                ev = evcls()
                                nsig = getattr(new, attr)
                                nsig.dispatch(ev)
                                res["dispatches"] += 1
                                for _ in range(3):
                                    await anyio.lowlevel.checkpoint()
                                if ev.source is not new:
                                    fails.append(("stale", f"{cls.__name__}: event of a new instance allocated at a collected owner's address carries source {ev.source!r}"))
                                if got:
                                    fails.append(("stale", f"{cls.__name__}: the subscriber of a collected instance received the event of a new instance at the same address"))
                        else:
                            try:
                                clone = _copy.copy(old)
                            except Exception:  # noqa: BLE001 - not copyable: nothing to check
                                clone = None
                            if clone is not None and clone is not old:
                                csig = getattr(clone, attr)
                                if csig is sig:
                                    fails.append(("shared", f"{cls.__name__}: a copy of an instance shares the original's bound signal"))
                                ev = evcls()
                                try:
                                    csig.dispatch(ev)
                                    res["dispatches"] += 1
                                except Exception as e:  # noqa: BLE001
                                    fails.append(("dispatch", f"dispatch on the copy raised {e!r}"))
                                for _ in range(3):
                                    await anyio.lowlevel.checkpoint()
                                if getattr(ev, "source", None) is not clone:
                                    fails.append(("stamp", f"{cls.__name__}: event dispatched on the copy carries source {getattr(ev, 'source', None)!r}"))
                                if got:
                                    fails.append(("delivery", f"{cls.__name__}: the original's subscriber received an event dispatched on the copy"))
                        tg.cancel_scope.cancel()
                res["cases"] += 1
                res["nontrivial"] += 1
                if fails:
                    res["violations"].append({"keys": sorted({f[0] for f in fails}), "fails": [list(f) for f in fails],
                                              "program": {"shape": unit["shape"], "scenario": scenario}, "choices": [], "trace": [], "outcome": "done"})

    def replay(self, rec: dict) -> int:
        p = rec["program"]
        if p.get("reuse"):
            s = self.work({"reuse": True}, "quick")
            for v in s["violations"]:
                for f in v["fails"]:
                    print("FAIL", f[0], "-", f[1])
            print(f"VIOLATION property=C11 replay={rec.get('_path', '')}" if s["violations"] else "no violation on this tree")
            return 1 if s["violations"] else 0
        if "order" not in p:
            print("liveness case:", p)
            s = self.work({"shape": p["shape"], "n": 1}, "quick")
        else:
            s = self.work({"shape": p["shape"], "n": p["n"]}, "quick")
        bad = [v for v in s["violations"] if v.get("program") == p] or s["violations"][:1]
        for v in bad:
            for f in v["fails"]:
                print("FAIL", f[0], "-", f[1])
        if bad:
            print(f"VIOLATION property=C11 replay={rec.get('_path', '')}")
            return 1
        print("no violation on this tree")
        return 0


CHECK = C11()
