"""C03 - one resource per (type, name) per context; failed adds change nothing (engine E2)."""

from __future__ import annotations

from ..bfs import APIS, CtxCheck
from ..ctxuniverse import KEYS, LOOKUPS, Universe

BAD = ("none-value", "empty-name", "space-name", "bad-types", "bad-types-seq", "bad-td", "bad-td-multi", "bad-td-zero", "bad-td-empty",
       "f-empty-name", "f-dot-name", "f-none-type", "f-no-types", "nl-name", "f-nl-name")


def nth(u: Universe, idx: int, what: str, key: str) -> int:
    return sum(1 for op in u.hist if op[0] == "op" and op[1] == idx and op[2][0] == what and op[2][1] == key)


class C03(CtxCheck):
    id = "C03"
    aspects = {"conflict", "unchanged", "stable", "teardown"}
    max_ctx = 2
    probe_every_step = True
    probe_apis = ("nowait", "async", "inj_sync")
    assumptions = [
        "one context and one child; types A/B, names default/x; single and two-type registrations",
        "'observably unchanged' is judged through get_resources, all lookup APIs, resource_added listeners and the teardown callbacks that run at unwinding",
    ]

    def rule(self, tier: str) -> str:
        return ("BFS over histories of succeeding and failing add_resource / add_resource_factory calls (conflicts on first/second type, "
                "11 invalid-argument forms), generating lookups, child creation, leave; compared with the model after every step; "
                "states = distinct canonical (model, impl) pairs; plus racing families (hand-out stability) and 168 re-entrant-factory scenarios "
                "(a factory callback that publishes a static resource under another of the factory's own pairs)")

    def bounds(self, tier: str) -> dict:
        return {"depth_beyond_seed": self.depth(tier), "max_contexts": self.max_ctx, "invalid_forms": list(BAD)}

    def depth(self, tier: str) -> int:
        return 4 if tier == "quick" else 5

    def seeds(self, tier: str) -> list[list]:
        root = [("new", -1, False), ("enter", 0, False)]
        out = [root]
        # a context that is being torn down (reached through a first-registered teardown callback): adds are still allowed there
        hooked = [("new", -1, False), ("enter", 0, True)]
        out.append(hooked + [("leave", 0, "clean")])
        out.append(hooked + [("op", 0, ("add", "Ad", True, "v:c0:Ad:0", "m")), ("leave", 0, "clean")])
        out.append([("new", -1, False), ("enter", 0, False), ("new", 0, False), ("enter", 1, True), ("leave", 1, "clean")])
        for k in ("Ad", "Bd", "ABd", "BAd", "Ax"):
            for td in (False, True):
                out.append(root + [("op", 0, ("add", k, td, f"v:c0:{k}:0", "m"))])
        for k, fk in (("Ad", "sync"), ("ABd", "sync"), ("BAd", "async")):
            out.append(root + [("op", 0, ("addf", k, fk, f"f:c0:{k}:0", "m"))])
            out.append(root + [("op", 0, ("add", "Bd", True, "v:c0:Bd:0", "m")), ("op", 0, ("addf", k, fk, f"f:c0:{k}:0", "m"))])
        return out

    def units(self, tier: str, seed: int) -> list:
        from .c04race import adder_units, two_type_units

        from . import reent

        from . import compadds

        from .c04race import fail_first_units

        return (super().units(tier, seed) + adder_units(tier) + two_type_units(tier) + reent.units(tier) + compadds.units(tier)
                + [dict(u, c03_fail_first=True) for u in fail_first_units(tier)])

    REENT_KEYS = {"reentrant", "stable", "visible"}
    COMPADDS_KEYS = {"unchanged", "conflict", "teardown", "stable"}

    def work(self, unit: dict, tier: str) -> dict:
        if "compadds" in unit:
            from . import compadds

            return compadds.work(unit, self.COMPADDS_KEYS)
        if "reent" in unit:
            from . import reent

            return reent.work(unit, self.REENT_KEYS)
        if "race" in unit:
            from .c04race import RACE

            ff = unit.pop("c03_fail_first", False)
            s = RACE.work(unit, tier)
            # only the hand-out stability clause belongs to C03 (in the fail-first family also: a lookup of a pair that resolves must
            # not fail with an exception the factory did not raise)
            keep = {"stable", "factory"} if ff else {"stable"}
            s["violations"] = [v for v in s["violations"] if keep & set(v["keys"])]
            s["keyhist"] = {k: n for k, n in s.get("keyhist", {}).items() if k in keep}
            return s
        return super().work(unit, tier)

    def replay(self, rec: dict):  # type: ignore[no-untyped-def]
        if "compadds" in rec.get("program", {}):
            from . import compadds

            return compadds.replay(rec, self.id, self.COMPADDS_KEYS)
        if "reent" in rec.get("program", {}):
            from . import reent

            return reent.replay(rec, self.id, self.REENT_KEYS)
        if "race" in rec.get("program", {}):
            from .c04race import RACE

            return RACE.replay(rec)
        return super().replay(rec)

    def enabled(self, u: Universe) -> list[tuple]:
        ops: list[tuple] = []
        if len(u.models) < self.max_ctx:
            for m in u.models:
                if m.state == "open":
                    ops.append(("new", m.idx, False))
        for m in u.models:
            if m.state == "closing" and u.in_teardown[m.idx]:
                ops.append(("resume", m.idx))
                for k in ("Ad", "Bd", "ABd"):
                    n = nth(u, m.idx, "add", k)
                    if n < 2:
                        for td in (False, True):
                            ops.append(("op", m.idx, ("add", k, td, f"v:c{m.idx}:{k}:{n}", "m")))
                ops.append(("op", m.idx, ("bad", "bad-td", f"bad:closing:{len(u.hist)}")))
            if m.state == "inactive":
                ops.append(("enter", m.idx, False))
            elif m.state == "open":
                if not any(c.parent is m and c.state in ("open", "closing") for c in u.models):
                    ops.append(("leave", m.idx, "clean"))
                    ops.append(("leave", m.idx, "exc"))
                for k in ("Ad", "Bd", "ABd", "BAd", "Ax"):
                    n = nth(u, m.idx, "add", k)
                    if n < 2:
                        for td in (False, True):
                            ops.append(("op", m.idx, ("add", k, td, f"v:c{m.idx}:{k}:{n}", "m")))
                for k, fk in (("Ad", "sync"), ("ABd", "sync"), ("BAd", "async"), ("Bd", "annot")):
                    n = nth(u, m.idx, "addf", k)
                    if n < 2:
                        ops.append(("op", m.idx, ("addf", k, fk, f"f:c{m.idx}:{k}:{n}", "m")))
                nb = sum(1 for op in u.hist if op[0] == "op" and op[2][0] == "bad")
                if nb < 2:
                    for form in BAD:
                        ops.append(("op", m.idx, ("bad", form, f"bad:{form}:{nb}")))
                for tname, name in LOOKUPS:
                    if (tname, name) not in m.res and (tname, name) in m.fac:
                        f = m.fac[(tname, name)]
                        for api in ("nowait", "async"):
                            if f["async"] and api == "nowait":
                                continue
                            ops.append(("op", m.idx, ("get", api, tname, name, False)))
        return ops


CHECK = C03()
