"""C08 - service tasks are stopped at teardown before anything they may depend on (engine E1)."""

from __future__ import annotations

import itertools
from typing import Any

import anyio

from ..explore import E1Check

ACTIONS = ("cancel", "none", "sync", "async", "sync-raise", "async-raise", "sync-base", "sync-aw", "obj", "partial", "method", "partial-obj", "falsy-obj")
# falsy-obj: a callable object that is falsy; obj / partial / method: the "given callable" need not be a function - an instance with __call__, a functools.partial, a bound method
BODIES = ("gate-end", "stop-event", "shielded", "crash", "forever", "crash0", "crash-oc")  # crash-oc: raises when it is cancelled (no own teardown); crash0: crashes, and its own context has no asynchronous teardown


class HB(BaseException):
    pass


class BlockError(Exception):
    pass


class Crash(Exception):
    pass


class Res:
    def __init__(self, label: str) -> None:
        self.label = label


class Late:
    def __init__(self, label: str) -> None:
        self.label = label


def valid(action: str, body: str) -> bool:
    if body == "crash-oc":
        return action == "cancel"
    if body in ("crash", "crash0"):
        return action in ("cancel", "none")
    if action == "cancel":
        return body in ("gate-end", "shielded", "forever", "stop-event")
    if action == "none":
        return body == "gate-end"
    if action in ("sync", "async"):
        return body in ("stop-event", "gate-end")  # gate-end: the task may have ended by itself before the teardown; the callable is still called
    if action in ("sync-aw", "obj", "partial", "method", "partial-obj", "falsy-obj"):
        return body == "stop-event"
    # raising callables fall back to cancellation
    return body in ("stop-event", "shielded")


def leaves(e: BaseException) -> list[BaseException]:
    if isinstance(e, BaseExceptionGroup):
        out = []
        for x in e.exceptions:
            out.extend(leaves(x))
        return out
    return [e]


class C08(E1Check):
    id = "C08"
    assumptions = [
        "owner is a root or a nested context; <= 3 registrations (quick) / 4 (thorough) of resources with teardown callbacks, callbacks and service tasks",
        "the owner's teardown itself is not cancelled, except in programs whose service task crashes (then only error propagation and quiescence after the root block are demanded)",
        "service tasks with teardown_action=None that never end are the user's dead-lock and are not generated",
    ]

    def rule(self, tier: str) -> str:
        return ("program = owner kind x sequence of registrations (resource+callback | callback | service task with one of 7 teardown actions "
                "and 5 body behaviours); executions = all completion orders of the owner's leave gate and the service gates (+ preemptive "
                "injections within the bound); non-trivial = >=2 environment events or an injection; distinct = distinct traces")

    def bounds(self, tier: str) -> dict:
        return {"registrations": 3 if tier == "quick" else 4, "deviation_bound": 0 if tier == "quick" else 1, "actions": ACTIONS, "bodies": BODIES}

    def units(self, tier: str, seed: int) -> list:
        svcs = [f"S:{a}:{b}" for a in ACTIONS for b in BODIES if valid(a, b)]
        items = ["R", "T", "TXE", "TXB", "SW", "TS"] + svcs  # TS: a teardown callback that starts a service task while the owner is closing
        progs = []
        maxn = 3 if tier == "quick" else 4
        for owner in ("root", "nested"):
            for n in range(1, maxn + 1):
                for seq in itertools.product(items, repeat=n):
                    ns = sum(1 for x in seq if x.startswith("S"))
                    if (ns == 0 and "TS" not in seq) or ns > 2 or (sum(1 for x in seq if x == "SW") > 1) or seq.count("TS") > 1:
                        continue
                    if "TS" in seq and (ns > 1 or n == maxn and tier == "quick" and ns == 1 and not seq[0] == "R"):
                        continue
                    nx = sum(1 for x in seq if x.startswith("TX"))
                    if nx > 1 or (nx and (n == maxn and ns == 2)):
                        continue
                    if n == maxn and tier == "quick" and ns == 2 and seq[0].startswith("S") and seq[-1].startswith("S") and len({x for x in seq if x.startswith("S")}) == 2:
                        continue
                    if n == 4 and len([x for x in seq if x.startswith("S:")]) == 2:
                        a, b = [x for x in seq if x.startswith("S:")]
                        if a.split(":")[1] not in ("cancel", "sync") or b.split(":")[1] not in ("cancel", "async-raise"):
                            continue
                    progs.append({"owner": owner, "seq": list(seq)})
                    if n <= 2 and ns >= 1 and "TS" not in seq and not any(x.split(":")[2].startswith("crash") for x in seq if x.startswith("S:")):
                        progs.append({"owner": owner, "seq": list(seq), "block_raises": True})
                    if n <= 2 and ns == 1 and "SW" not in seq:
                        progs.append({"owner": owner, "seq": list(seq), "inner": True})
                        progs.append({"owner": owner, "seq": list(seq), "component": True})
        return progs

    def bound(self, tier: str, program: Any) -> int:
        return 0 if tier == "quick" else 1

    def max_execs(self, tier: str, program: Any) -> int:
        return 3000 if tier == "quick" else 40000

    def hash_modes(self, tier: str, program: Any) -> tuple:
        # thorough: both iteration orders of the task sets that anyio walks when it delivers a cancellation
        return (0,) if tier == "quick" else (0, 1)

    async def main(self, env: Any, program: dict) -> None:
        from asphalt.core import Context, add_teardown_callback, current_context

        log = env.log
        st = env.data["st"] = {"crashes": []}
        seq = program["seq"]

        def make_service(label: str, action: str, body: str):
            stop = anyio.Event()

            async def service() -> None:
                ctx = current_context()
                snap = sorted(v.label for v in ctx.get_resources(Res).values())
                log("svc+", label, tuple(snap), tuple(st["owner_res"]))
                # a factory registered by the task in ITS context (must stay there), and one the owner registers later (must not reach
                # the task: its context is a snapshot)
                ctx.add_resource_factory(lambda: Late("svc-own"), "svcown" + label, types=Late)

                def late_probe(when: str) -> None:
                    try:
                        v = ctx.get_resource_nowait(Late, "late", optional=True)
                    except BaseException as e:  # noqa: BLE001
                        v = e
                    if v is not None:
                        log("svc-late-visible", label, when)

                async def own_td() -> None:
                    # the task's own context needs time to tear down (one gate) unless it is being cancelled
                    log("svc-td+", label)
                    try:
                        await env.gate(f"{label}:owntd")
                    finally:
                        log("svc-td", label)

                if body not in ("crash0", "crash-oc"):
                    ctx.add_teardown_callback(own_td)
                try:
                    if body == "gate-end":
                        await env.gate(f"{label}:end")
                    elif body == "stop-event":
                        await stop.wait()
                        log("svc-stopping", label)
                        await env.gate(f"{label}:cleanup")
                    elif body == "shielded":
                        try:
                            await anyio.Event().wait()
                        finally:
                            with anyio.CancelScope(shield=True):
                                log("svc-cleanup+", label)
                                await env.gate(f"{label}:cleanup")
                                log("svc-cleanup-", label)
                    elif body == "forever":
                        await anyio.Event().wait()
                    elif body == "crash-oc":
                        try:
                            await anyio.Event().wait()
                        finally:
                            exc = Crash(label)
                            st["crashes"].append(exc)
                            log("svc-crash", label)
                            raise exc
                    elif body in ("crash", "crash0"):
                        await env.gate(f"{label}:crash")
                        exc = Crash(label)
                        st["crashes"].append(exc)
                        log("svc-crash", label)
                        raise exc
                    snap2 = sorted(v.label for v in ctx.get_resources(Res).values())
                    if snap2 != snap:
                        log("svc-snapshot-changed", label, tuple(snap2))
                    late_probe("end")
                except BaseException as e:
                    log("svc!", label, type(e).__name__)
                    raise
                finally:
                    log("svc-", label)

            if action == "cancel":
                ta: Any = "cancel"
            elif action == "none":
                ta = None
            elif action == "sync":
                def ta() -> None:  # type: ignore[misc]
                    log("action", label)
                    stop.set()
            elif action == "async":
                async def ta() -> None:  # type: ignore[misc]
                    log("action", label)
                    await anyio.lowlevel.checkpoint()
                    stop.set()
            elif action == "sync-aw":
                async def _stop() -> None:
                    log("action", label)
                    stop.set()

                def ta() -> Any:  # type: ignore[misc]
                    return _stop()  # a plain callable that returns an awaitable
            elif action in ("obj", "partial", "method", "partial-obj", "falsy-obj"):
                class Stopper:
                    def __call__(self) -> None:
                        log("action", label)
                        stop.set()

                    def stop_it(self, arg: int = 0) -> None:
                        log("action", label)
                        stop.set()

                class FalsyStopper(Stopper):
                    def __bool__(self) -> bool:
                        return False  # (e.g. a stop flag that reports whether stop has been requested yet)

                import functools

                ta = (Stopper() if action == "obj" else FalsyStopper() if action == "falsy-obj" else functools.partial(Stopper().stop_it, 1) if action == "partial"
                      else functools.partial(Stopper()) if action == "partial-obj" else Stopper().stop_it)
            elif action == "sync-raise":
                def ta() -> None:  # type: ignore[misc]
                    log("action", label)
                    raise ValueError("teardown action")
            elif action == "async-raise":
                async def ta() -> None:  # type: ignore[misc]
                    log("action", label)
                    await anyio.lowlevel.checkpoint()
                    raise ValueError("teardown action")
            else:
                def ta() -> None:  # type: ignore[misc]
                    log("action", label)
                    raise HB("teardown action")
            return service, ta

        async def owner_block() -> None:
            try:
                await owner_block0()
            finally:
                log("owner-left")

        async def owner_block0() -> None:
            async with Context() as ctx:
                st["owner_res"] = []
                for i, item in enumerate(seq):
                    lbl = f"{i}"
                    if item == "R":
                        ctx.add_resource(Res("r" + lbl), "r" + lbl, teardown_callback=lambda l=lbl: log("td", l))
                        st["owner_res"] = sorted(st["owner_res"] + ["r" + lbl])
                        log("reg", lbl, "R")
                    elif item == "T":
                        ctx.add_teardown_callback(lambda l=lbl: log("td", l))
                        log("reg", lbl, "T")
                    elif item in ("TXE", "TXB"):
                        def raiser(l: str = lbl, base: bool = item == "TXB") -> None:
                            log("td", l)
                            raise (HB if base else ValueError)("teardown callback " + l)

                        ctx.add_teardown_callback(raiser)
                        log("reg", lbl, item)
                    elif item == "TS":
                        async def starter(l: str = lbl) -> None:
                            log("td", l)
                            service, ta = make_service(l + "s", "sync", "stop-event")
                            await ctx.start_service_task(service, "svc" + l + "s", teardown_action=ta)
                            log("reg-late", l)

                        ctx.add_teardown_callback(starter)
                        log("reg", lbl, "TS")
                    elif item == "SW":
                        # a service task that registers a teardown callback on its owner while it is still starting
                        async def sw(*, task_status: Any, l: str = lbl) -> None:
                            log("svc+", l, (), ())
                            ctx.add_teardown_callback(lambda: log("td", l + "w"))
                            current_context().add_teardown_callback(lambda: log("svc-td", l))
                            task_status.started()
                            try:
                                await anyio.Event().wait()
                            except BaseException as e:
                                log("svc!", l, type(e).__name__)
                                raise
                            finally:
                                log("svc-", l)

                        await ctx.start_service_task(sw, "svc" + lbl)
                        log("reg", lbl, "SW")
                    elif program.get("component"):
                        # the same registration made from a component's start() through the module-level shortcut
                        from asphalt.core import Component, start_component, start_service_task

                        _, action, body = item.split(":")
                        service, ta = make_service(lbl, action, body)

                        class Comp(Component):
                            async def start(self) -> None:
                                await start_service_task(service, "svc" + lbl, teardown_action=ta)

                        await start_component(Comp, {}, timeout=None)
                        log("reg", lbl, "S")
                    else:
                        _, action, body = item.split(":")
                        service, ta = make_service(lbl, action, body)
                        if i % 2 == 1:
                            service = (lambda svc: (lambda: svc()))(service)  # a plain callable returning the coroutine
                        if program.get("inner"):
                            # started on the owner while a deeper, short-lived context is current
                            async with Context():
                                await ctx.start_service_task(service, "svc" + lbl, teardown_action=ta)
                            log("inner-left", lbl)
                        else:
                            await ctx.start_service_task(service, "svc" + lbl, teardown_action=ta)
                        log("reg", lbl, "S")
                # registered after every task was started: invisible to the tasks; and nothing the tasks registered is visible here
                ctx.add_resource_factory(lambda: Late("late"), "late", types=Late)
                for i2, item2 in enumerate(seq):
                    if item2.startswith("S:"):
                        try:
                            leaked = ctx.get_resource_nowait(Late, "svcown" + str(i2), optional=True)
                        except BaseException as e:  # noqa: BLE001
                            leaked = e
                        if leaked is not None:
                            log("svc-factory-leaked", str(i2))
                await env.gate("leave")
                log("leaving")
                if program.get("block_raises"):
                    # the owner's block ends with an ordinary exception: every task is still stopped as its teardown_action dictates
                    raise BlockError("the block itself fails")

        try:
            if program["owner"] == "root":
                await owner_block()
            else:
                async with Context():
                    try:
                        await owner_block()
                    finally:
                        log("nested-done")
                log("root-left")
            st["exc"] = None
        except BaseException as e:  # noqa: BLE001
            st["exc"] = e
            log("block-exc", type(e).__name__)
        log("root-left") if program["owner"] == "root" else None
        # anything still alive may show itself
        await env.gate("after")
        log("end")

    def verdict(self, env: Any, program: Any, outcome: str) -> None:
        super().verdict(env, program, outcome)
        if outcome != "done":
            return
        tr = env.trace
        fail = env.fail
        st = env.data["st"]
        seq = program["seq"]
        crashed = bool(st["crashes"])
        idx = {}
        for i, ev in enumerate(tr):
            idx.setdefault(ev[:2] if len(ev) > 1 else ev, i)
        root_left = next((i for i, ev in enumerate(tr) if ev[0] == "root-left"), None)
        owner_left = next((i for i, ev in enumerate(tr) if ev[0] == "owner-left"), None)
        leaving = next((i for i, ev in enumerate(tr) if ev[0] == "leaving"), None)
        svc_ev = ("svc+", "svc-", "svc!", "svc-td", "svc-td+", "svc-stopping", "svc-cleanup+", "svc-cleanup-", "svc-crash", "action")
        end_of_block = root_left if root_left is not None else len(tr)
        late = [ev for ev in tr[end_of_block + 1:] if ev[0] in svc_ev]
        if late:
            fail("still-running", f"service task events after the root block had been left: {late[:4]}")
        # exceptions escaping a service task take the application down
        if st["crashes"]:
            # the application goes down with (at least one of) the crash exception(s); a second crash that is overtaken by
            # the cancellation caused by the first one may legitimately be replaced by that cancellation
            out = st.get("exc")
            if out is None or not any(x is exc for x in leaves(out) for exc in st["crashes"]):
                fail("swallowed", f"service task(s) raised {st['crashes']!r} but the root block ended with {out!r}")
            # every exception that actually escaped a service task comes out (a second task that was overtaken by the cancellation
            # never raised and is not in the list)
            # (when a crashed task's OWN context has an asynchronous teardown that is cancelled by the shutdown, the teardown's exception
            # group replaces the crash by design - only tasks without such a teardown are held to this)
            plain = all(item.split(":")[2] in ("crash0", "crash-oc") for item in seq if item.startswith("S:") and item.split(":")[2].startswith("crash"))
            missing = [exc for exc in st["crashes"] if out is None or not any(x is exc for x in leaves(out))]
            if plain and missing and len(missing) < len(st["crashes"]):
                fail("swallowed", f"service tasks raised {st['crashes']!r}; {missing!r} vanished from what the root block raised: {out!r}")
        if crashed:
            return
        if program.get("block_raises"):
            # (when a teardown callback or action raises too, the teardown's exception group replaces the block's exception by design -
            # C01's subject; only the quiet programs are judged here)
            quiet = not any("raise" in x or "base" in x or x.startswith("TX") for x in seq)
            if quiet and (st.get("exc") is None or not all(isinstance(x, BlockError) for x in leaves(st["exc"]))):
                fail("unexpected-error", f"the owner's block raised BlockError, no task crashed and no teardown action raised, but the root block ended with {st.get('exc')!r}")
        elif st.get("exc") is not None and not any("raise" in x or "base" in x or x.startswith("TX") for x in seq):
            # (whether the exception of a raising teardown action is swallowed or re-raised is not stated; not judged)
            fail("unexpected-error", f"no task crashed, no teardown action raised, but the block raised {st['exc']!r}")
        if owner_left is not None:
            late2 = [ev for ev in tr[owner_left + 1:] if ev[0] in svc_ev]
            if late2:
                fail("still-running", f"service task events after the owning context's block had been left: {late2[:4]}")
        for i, item in enumerate(seq):
            if item == "TS":
                # a service task started from a teardown callback (the owner is closing): it is stopped like any other - its action is
                # called once, it and its context finish before callbacks registered earlier run and before the block is left
                ls = f"{i}s"
                sp = next((j for j, ev in enumerate(tr) if ev[0] == "svc+" and ev[1] == ls), None)
                if sp is None:
                    fail("not-started", f"the service task started by teardown callback {i} never ran")
                    continue
                end = next((j for j, ev in enumerate(tr) if ev[0] == "svc-" and ev[1] == ls), None)
                tdx = next((j for j, ev in enumerate(tr) if ev[0] == "svc-td" and ev[1] == ls), None)
                acts = [j for j, ev in enumerate(tr) if ev[0] == "action" and ev[1] == ls]
                if len(acts) != 1:
                    fail("action", f"teardown action of the task started during the teardown (callback {i}) was invoked {len(acts)} times")
                if end is None or tdx is None or (owner_left is not None and max(end, tdx) > owner_left):
                    fail("still-running", f"the service task started during the teardown (callback {i}) had not finished when the owner's block was left")
                    continue
                for k in range(i):
                    if seq[k] in ("R", "T", "TXE", "TXB"):
                        t = next((j for j, ev in enumerate(tr) if ev[0] == "td" and ev[1] == str(k)), None)
                        if t is not None and (t < end or t < tdx):
                            fail("order", f"teardown callback {k} ran at {t} while the service task started by the later-registered callback {i} was still running (ended {end}, context {tdx})")
                continue
            if item == "SW":
                tw = next((j for j, ev in enumerate(tr) if ev[0] == "td" and ev[1] == f"{i}w"), None)
                se = next((j for j, ev in enumerate(tr) if ev[0] == "svc-" and ev[1] == str(i)), None)
                if tw is None or se is None or tw < se:
                    fail("order", f"the teardown callback registered while service task {i} was starting ran at {tw}, the task ended at {se}")
                continue
            if not item.startswith("S"):
                continue
            lbl = str(i)
            _, action, body = item.split(":")
            sp = next((ev for ev in tr if ev[0] == "svc+" and ev[1] == lbl), None)
            if sp is None:
                fail("not-started", f"service task {lbl} never ran")
                continue
            if sp[2] != sp[3]:
                fail("snapshot", f"service task {lbl} saw resources {sp[2]}, the owner had {sp[3]} when it was started")
            if any(ev[0] == "svc-snapshot-changed" and ev[1] == lbl for ev in tr):
                fail("snapshot", f"service task {lbl} saw resources added to the owner after it had been started")
            if any(ev[0] == "svc-late-visible" and ev[1] == lbl for ev in tr):
                fail("snapshot", f"service task {lbl} can use a resource factory that was added to the owner after the task had been started")
            if any(ev[0] == "svc-factory-leaked" and ev[1] == lbl for ev in tr):
                fail("snapshot", f"a resource factory registered by service task {lbl} in its own context is usable from the owning context")
            end = next((j for j, ev in enumerate(tr) if ev[0] == "svc-" and ev[1] == lbl), None)
            tdx = next((j for j, ev in enumerate(tr) if ev[0] == "svc-td" and ev[1] == lbl), None)
            if body in ("crash0", "crash-oc"):
                tdx = end  # (its own context has no teardown callback)
            if end is None or tdx is None:
                fail("still-running", f"service task {lbl} never finished (body end {end}, own teardown {tdx})")
                continue
            # callbacks registered before the task was started run only after the task and its context finished
            for k in range(i):
                if seq[k] in ("R", "T", "TXE", "TXB") :
                    t = next((j for j, ev in enumerate(tr) if ev[0] == "td" and ev[1] == str(k)), None)
                    if t is None:
                        fail("teardown-missing", f"teardown callback {k} never ran")
                    elif t < end or t < tdx:
                        fail("order", f"teardown callback {k} (registered before service task {lbl}) ran at {t}, the task ended at {end} and its context at {tdx}")
            stopped = next((j for j, ev in enumerate(tr) if ev[1:2] == (lbl,) and (ev[0] == "action" or (ev[0] == "svc!" and ev[2] == "CancelledError"))), None)
            if stopped is not None and leaving is not None and stopped < leaving:
                fail("stopped-early", f"service task {lbl} was stopped (trace index {stopped}) before the teardown of its owning context began ({leaving})")
            running_at_teardown = leaving is not None and end > leaving
            acts = [j for j, ev in enumerate(tr) if ev[0] == "action" and ev[1] == lbl]
            cancelled = any(ev[0] == "svc!" and ev[1] == lbl and ev[2] == "CancelledError" for ev in tr)
            if action not in ("cancel", "none"):
                if len(acts) != 1:
                    fail("action", f"teardown action of task {lbl} was invoked {len(acts)} times")
                elif leaving is not None and acts[0] < leaving:
                    fail("action", f"teardown action of task {lbl} was invoked before the teardown began")
            ended_by_itself = body == "gate-end" and any(ev[:3] == ("env", "gate", f"{lbl}:end") for ev in tr[:end])
            if action == "cancel" or action.endswith("raise") or action.endswith("base"):
                if not ended_by_itself and not cancelled:
                    fail("action", f"task {lbl} (action {action}) could only end by cancellation but never saw one")
                if ended_by_itself and cancelled:
                    fail("action", f"task {lbl} ended by itself and still saw a cancellation")
            elif cancelled:
                fail("action", f"task {lbl} (action {action}) was cancelled although its teardown action does not ask for that")


CHECK = C08()
