"""C15 - run_application: every ending tears down the root context and exits as documented (engine E1, fault enumeration).

The real ``run_application`` runs on the controlled loop through ``backend_options={"loop_factory": ...}``.
SIGINT / SIGTERM are virtual: the loop's ``add_signal_handler`` table is filled by anyio's signal receiver
and the explorer delivers the signal by queueing the handler, exactly like the real loop does.
"""

from __future__ import annotations

import copy
import logging
import signal
import warnings
from typing import Any

from ..comptree import CompFail, Tree, paths
from ..explore import E1Check
from ..vloop import Deadlock, HorizonExceeded, ReplayDivergence

import enum


class ExitCode(enum.IntEnum):
    """exit statuses as an application would declare them: members ARE integers"""

    OK = 0
    WARN = 3
    TOO_BIG = 200


RUN_VALUES = [None, 0, 1, 5, 127, 128, -1, "x", 3.5, 0.0, "", [], 10**6, ExitCode.OK, ExitCode.WARN, ExitCode.TOO_BIG]


def expected_for_run_value(v: Any) -> tuple:
    if v is None or (isinstance(v, int) and v == 0):
        return ("return",)
    if isinstance(v, int) and 1 <= v <= 127:
        return ("exit", v)
    return ("exit", 1)


def node(alias: str, *children: dict) -> dict:
    return {"alias": alias, "children": list(children)}


TREES = {
    "r": node(""),
    "r(a)": node("", node("a")),
    "r(a,b)": node("", node("a"), node("b")),
    "r(a(g))": node("", node("a", node("g"))),
    # thorough tier only
    "r(a,b,c)": node("", node("a"), node("b"), node("c")),
    "r(a(g),b)": node("", node("a", node("g")), node("b")),
}
QUICK_TREES = ["r", "r(a)", "r(a,b)", "r(a(g))"]


def build(program: dict) -> dict:
    spec = copy.deepcopy(TREES[program["tree"]])
    for p, nd in paths(spec):
        for phase in ("prepare", "start"):
            # (the second callback of a prepare() returns a non-coroutine awaitable, the second one of a start() registers one more
            # callback while the teardown is running)
            steps: list = [("td", f"td:{p}:{phase}"), ("tds", f"td3:{p}:{phase}"), ("gate", "g"), ("tdn" if phase == "start" else "tdaw", f"td2:{p}:{phase}")]
            nd[phase] = steps
    end = program["end"]
    root = paths(spec)[0][1]
    root["prepare"].insert(1, ("add", "RAB", "multi", "m", True))  # two types, ONE teardown callback
    if program.get("gen"):
        root["gen_start"] = True  # start() is a @context_teardown generator that registers callbacks before it yields
    if end["kind"] == "fail":
        for p, nd in paths(spec):
            if p == end["path"]:
                if end["phase"] == "ctor":
                    nd["ctor_fail"] = end.get("cls", "E")
                else:
                    nd[end["phase"]].insert(2 if end["pos"] == "after" else 1, ("fail", end.get("cls", "E")))
    if end["kind"] == "conflict":
        # a component re-publishes a (type, name) that is already taken, with a teardown callback: start-up fails, and the
        # callback of the failed call must never run
        ps = paths(spec)
        ps[0][1]["prepare"].insert(1, ("add", "RA", "dup", "first", True))
        for p, nd in ps:
            if p == end["path"]:
                nd["start"].insert(1, ("add", "RA", "dup", "second", True))
    if end["kind"] == "svc-crash":
        for p, nd in paths(spec):
            if p == end["path"]:
                nd["start"].insert(1, ("svc", "crasher", [("gate", "c"), ("crash",)]))
    if program.get("svc"):
        last = paths(spec)[-1][1]
        if program["svc"] in ("ta-raise", "ta-partial"):
            last["prepare"].insert(1, ("svc-" + program["svc"], "bgta"))
        else:
            body = {"owntd": [("owntd",), ("forever",)], "coc": [("owntd",), ("crash-on-cancel",)]}.get(program["svc"], [("forever",)])
            last["prepare"].insert(1, ("svc", "bg", body))
    if program["cli"]:
        if end["kind"] == "run-return":
            spec["run"] = [("td", "td:run"), ("gate", "r"), ("return", RUN_VALUES[end["value"]])]
        elif end["kind"] == "run-raise":
            spec["run"] = [("td", "td:run"), ("gate", "r"), ("raise",)]
        else:
            spec["run"] = [("td", "td:run"), ("gate", "r"), ("return", None)]
    return spec


class _Handler(logging.Handler):
    def __init__(self, env: Any) -> None:
        super().__init__(logging.INFO)
        self.env = env

    def emit(self, record: logging.LogRecord) -> None:
        msg = record.getMessage()
        for key in ("Received signal", "Application started", "Application stopped", "Starting application", "Error during application startup"):
            if msg.startswith(key):
                self.env.log("log", key)


class C15(E1Check):
    id = "C15"
    backends = ["asyncio", "trio"]
    assumptions = [
        "asyncio: controlled loop, virtual signals (delivered through the loop's signal-handler table) at every loop iteration; trio: MockClock, "
        "real signals raised at quiescent points, batch-reversal deviations",
        "one fault per execution; trees of <= 3 components with gated prepare/start phases, optional background service task",
        "outcomes the statement leaves open (run() raising, crash during start-up, signal while a CLI run() is in progress, signal between the last "
        "phase and 'Application started') are checked for teardown completeness and order only",
    ]

    def rule(self, tier: str) -> str:
        return ("program = tree x plain/CLI root x ending (13 run() results, run() raising, component failure in each phase, start-up time-out, "
                "SIGINT/SIGTERM, service-task crash); executions = all gate orders with the signal / timer / crash offered at every quiescent point "
                "and injected at every loop iteration (deviation bound 1); distinct = distinct traces")

    def bounds(self, tier: str) -> dict:
        return {"trees": QUICK_TREES if tier == "quick" else list(TREES), "deviation_bound": "1 (signal / time-out / crash endings), 0 (others)" if tier == "quick" else "3 (signal / time-out / crash endings), 2 (others)"}

    def units(self, tier: str, seed: int) -> list:
        progs = []
        for tree in (QUICK_TREES if tier == "quick" else list(TREES)):
            ps = [p for p, _ in paths(TREES[tree])]
            for svc in (False, True):
                if svc and tree == "r":
                    continue
                # CLI endings
                for vi in range(len(RUN_VALUES)):
                    if tree not in ("r", "r(a)") and vi not in (0, 2, 5, 7, 9, 14):
                        continue
                    progs.append({"tree": tree, "cli": True, "svc": svc, "end": {"kind": "run-return", "value": vi}})
                progs.append({"tree": tree, "cli": True, "svc": svc, "end": {"kind": "run-raise"}})
                for vi in (0, 3, 7):
                    # the root (CLI) component given by a reference string, as `asphalt run` gives it
                    progs.append({"tree": tree, "cli": True, "svc": svc, "byref": True, "end": {"kind": "run-return", "value": vi}})
                for cli in (False, True):
                    progs.append({"tree": tree, "cli": cli, "svc": svc, "gen": True, "end": {"kind": "signal", "sig": "SIGTERM"}})
                    progs.append({"tree": tree, "cli": cli, "svc": svc, "gen": True, "end": {"kind": "fail", "path": ps[-1], "phase": "start", "pos": "after"}})
                progs.append({"tree": tree, "cli": True, "svc": svc, "gen": True, "end": {"kind": "run-return", "value": 3}})
                if tree == "r" or (tree == "r(a)" and svc):
                    # the root component is given as a reference that cannot be resolved: a start-up failure like any other
                    for ref in ("vk_no_such_module:Cls", "vkplugins.comps:NoSuchAttr", "no_such_entry_point"):
                        progs.append({"tree": tree, "cli": False, "svc": svc, "end": {"kind": "badref", "ref": ref}})
                for cli in (False, True):
                    for p in ps:
                        for phase in ("ctor", "prepare", "start"):
                            for pos in (("before",) if phase == "ctor" else ("before", "after")):
                                progs.append({"tree": tree, "cli": cli, "svc": svc, "end": {"kind": "fail", "path": p, "phase": phase, "pos": pos}})
                    progs.append({"tree": tree, "cli": cli, "svc": svc, "end": {"kind": "timeout"}})
                    for sig in ("SIGINT", "SIGTERM"):
                        progs.append({"tree": tree, "cli": cli, "svc": svc, "end": {"kind": "signal", "sig": sig}})
                    if svc and cli:
                        # a background service (with an asynchronous teardown of its own context) that raises when it is stopped at shutdown:
                        # an exception escaping a service task after start-up propagates
                        for vi in (0, 3):
                            progs.append({"tree": tree, "cli": True, "svc": "coc", "end": {"kind": "run-return", "value": vi}})
                    if svc:
                        # a background service whose (asynchronous) teardown action fails after it has stopped the task: the documented
                        # outcome of the ending is unaffected
                        for ta in ("ta-raise", "ta-partial"):
                            progs.append({"tree": tree, "cli": cli, "svc": ta, "end": {"kind": "signal", "sig": "SIGTERM"}})
                            if cli:
                                progs.append({"tree": tree, "cli": True, "svc": ta, "end": {"kind": "run-return", "value": 0}})
                    if svc:
                        # the background service has an asynchronous teardown callback on its own context
                        progs.append({"tree": tree, "cli": cli, "svc": "owntd", "end": {"kind": "signal", "sig": "SIGTERM"}})
                        progs.append({"tree": tree, "cli": cli, "svc": "owntd", "end": {"kind": "fail", "path": ps[-1], "phase": "start", "pos": "before"}})
                    else:
                        # a start-up failure whose exception is a BaseException that is neither an Exception nor a cancellation
                        for p, phase in ((ps[-1], "start"), (ps[0], "prepare"), (ps[-1], "ctor")):
                            progs.append({"tree": tree, "cli": cli, "svc": svc, "end": {"kind": "fail", "path": p, "phase": phase, "pos": "before", "cls": "B"}})
                    for p in ps[-1:]:
                        progs.append({"tree": tree, "cli": cli, "svc": svc, "end": {"kind": "svc-crash", "path": p}})
                        progs.append({"tree": tree, "cli": cli, "svc": svc, "end": {"kind": "conflict", "path": p}})
        return progs

    def bound(self, tier: str, program: Any) -> int:
        k = program["end"]["kind"]
        if k in ("signal", "timeout", "svc-crash"):
            return 1 if tier == "quick" else 3
        return 0 if tier == "quick" else 2

    def max_execs(self, tier: str, program: Any) -> int:
        return 6000 if tier == "quick" else 120000

    def hash_modes(self, tier: str, program: Any) -> tuple:
        # thorough: both iteration orders of the task sets that anyio walks when it delivers a cancellation
        return (0,) if tier == "quick" else (0, 1)

    def backends_for(self, tier: str, program: Any) -> tuple:
        # trio: same programs; signals are real ones raised with signal.raise_signal() at quiescent points only
        if tier == "quick" and program["tree"] not in ("r", "r(a)"):
            return ("asyncio",)
        return ("asyncio", "trio")

    def run(self, env: Any, program: dict) -> None:
        from asphalt.core import run_application

        spec = build(program)
        if program.get("byref"):
            spec["byref"] = True
        tree = Tree(env, spec)
        env.data["tree"] = tree
        env.data["spec"] = spec
        end = program["end"]
        env.offer_timers = end["kind"] == "timeout"
        if end["kind"] == "signal":
            env.arm_signal(getattr(signal, end["sig"]))
            env.inject_filter = lambda o: o[0] == "signal"
        elif end["kind"] == "timeout":
            env.inject_filter = lambda o: o[0] == "timer"
        elif end["kind"] == "svc-crash":
            env.inject_filter = lambda o: o[0] == "gate" and o[1].startswith("svc:crasher")
        logger = logging.getLogger("asphalt.core")
        old_level = logger.level
        h = _Handler(env)
        logger.addHandler(h)
        logger.setLevel(logging.INFO)
        old_prop = logger.propagate
        logger.propagate = False
        try:
            with warnings.catch_warnings():
                warnings.simplefilter("ignore")
                try:
                    run_application(end["ref"] if end["kind"] == "badref" else tree.type_decl(spec, tree.root_class), {}, backend=env.backend,
                                    backend_options=env.backend_options(),
                                    logging=None, start_timeout=5 if end["kind"] == "timeout" else 10)
                    env.data["outcome"] = ("return",)
                    env.log("RA-return")
                except SystemExit as e:
                    env.data["outcome"] = ("exit", e.code)
                    env.log("RA-exit", e.code if isinstance(e.code, (int, str, type(None))) else repr(e.code))
                except (Deadlock, HorizonExceeded, ReplayDivergence):
                    raise
                except BaseException as e:  # noqa: BLE001
                    if getattr(env, "deadlocked", False) or env.frozen:
                        raise  # the explorer ended the run (dead-lock / horizon), this is not the application's outcome
                    env.data["outcome"] = ("raise", e)
                    env.log("RA-raise", type(e).__name__)
        finally:
            logger.removeHandler(h)
            logger.setLevel(old_level)
            logger.propagate = old_prop

    def deadlock_ok(self, program: Any) -> bool:
        # a non-CLI application whose start-up finished in time runs until it is signalled: for ever in this program
        return program["end"]["kind"] == "timeout" and not program["cli"]

    def verdict(self, env: Any, program: Any, outcome: str) -> None:
        super().verdict(env, program, outcome)
        if outcome == "deadlock" and self.deadlock_ok(program):
            tr0 = env.trace
            ti0 = next((i for i, ev in enumerate(tr0) if ev[:2] == ("env", "timer")), None)
            spec0 = env.data["spec"]
            need = sum(1 for p, nd in paths(spec0) for ph in ("prepare", "start") if nd.get(ph) is not None)
            rel = sum(1 for ev in tr0[:ti0] if ev[:2] == ("env", "gate") and ev[2].endswith(":g")) if ti0 is not None else need
            n_phase_end = sum(1 for ev in tr0 if ev[0] == "phase-" and ev[2] in ("prepare", "start"))
            started0 = ("log", "Application started") in tr0 or n_phase_end >= need  # (the log wording is not part of the property)
            if not started0 or rel < need:
                env.fail("deadlock", "the application hangs although its start-up did not complete in time")
            return
        if outcome != "done":
            return
        tr = env.trace
        fail = env.fail
        end = program["end"]
        out = env.data.get("outcome")
        spec = env.data["spec"]
        tree = env.data["tree"]
        ra = next(i for i, ev in enumerate(tr) if ev[0] in ("RA-return", "RA-exit", "RA-raise"))
        # teardown: everything registered ran exactly once, in reverse order, before run_application returned or raised
        regs0 = [ev[1] for ev in tr if ev[0] == "td-reg"]
        # reference stack: callbacks registered during the teardown run right after the callback that registered them
        regs: list = []
        for r in regs0:
            regs.append(r)
        expected = []
        for r in reversed(regs0):
            expected.append(r)
            if any(ev[0] == "td-reg-late" and ev[1] == r + "+nested" for ev in tr) or r.startswith("td2:") and r.endswith(":start"):
                expected.append(r + "+nested")
        regs = list(reversed(expected))
        tds = [ev[1] for ev in tr[:ra] if ev[0] == "td"]
        late = [ev for ev in tr[ra + 1:] if ev[0] not in ("log",)]
        if late:
            fail("late", f"events after run_application had ended: {late[:4]}")
        if tds != list(reversed(regs)):
            fail("teardown", f"registered teardown callbacks {regs}; ran before run_application ended: {tds}")
        svc_started = [ev[1] for ev in tr if ev[0] == "svc-started"]
        for s in svc_started:
            if not any(ev[0] == "svc-" and ev[1] == s for ev in tr[:ra]):
                fail("teardown", f"service task {s} had not ended when run_application ended")
        # outcome
        started = next((i for i, ev in enumerate(tr) if ev == ("log", "Application started")), None)
        n_gates = sum(1 for p, nd in paths(spec) for ph in ("prepare", "start") if nd.get(ph) is not None)

        def released_before(i: int) -> int:
            return sum(1 for ev in tr[:i] if ev[:2] == ("env", "gate") and ev[2].endswith(":g"))

        exp: Any = None
        k = end["kind"]
        if k == "run-return":
            exp = expected_for_run_value(RUN_VALUES[end["value"]])
        elif k == "run-raise":
            exp = None
        elif k in ("fail", "conflict", "badref"):
            exp = ("exit", 1)
        elif k == "timeout":
            ti = next((i for i, ev in enumerate(tr) if ev[:2] == ("env", "timer")), None)
            if ti is None or (started is not None and ti > started):
                exp = ("return",) if program["cli"] else None
                if not program["cli"]:
                    fail("harness", "non-CLI time-out program ended without a timer")
            elif released_before(ti) < n_gates:
                exp = ("exit", 1)
            else:
                exp = None
        elif k == "signal":
            ri = next((i for i, ev in enumerate(tr) if ev == ("log", "Received signal")), None)
            di = next((i for i, ev in enumerate(tr) if ev[:2] == ("env", "signal")), None)
            if ri is None and di is not None:
                # the runner's log records are not part of the property (they may be reworded): without them only the clear
                # zone is judged - the signal was delivered while start-up still needed at least two completions
                exp = ("exit", 1) if released_before(di) < n_gates - 1 else None
            elif ri is None:
                exp = ("return",) if program["cli"] else None
                if not program["cli"]:
                    fail("signal-lost", "the application ended although no signal was delivered")
            elif started is not None and ri > started:
                exp = ("return",) if not program["cli"] else None
            elif released_before(ri) < n_gates:
                exp = ("exit", 1)
            else:
                exp = None
        elif k == "svc-crash":
            ci = next((i for i, ev in enumerate(tr) if ev[0] == "svc-crash"), None)
            if ci is None:
                exp = ("return",) if program["cli"] else None
                if not program["cli"]:
                    fail("harness", "non-CLI crash program ended without a crash")
            elif started is not None and ci > started:
                exp = ("crash",)
            else:
                exp = None
        if program.get("svc") == "coc" and k == "run-return" and any(ev[0] == "svc-crash" for ev in tr):
            exp = ("crash",)
        if exp == ("crash",):
            def leaves(e: BaseException) -> list:
                if isinstance(e, BaseExceptionGroup):
                    return [x for y in e.exceptions for x in leaves(y)]
                return [e]

            import asyncio as _asyncio

            import trio as _trio

            cancelled = (_asyncio.CancelledError, _trio.Cancelled)
            lv = leaves(out[1]) if out[0] == "raise" else []
            mine = [x for x in lv if isinstance(x, CompFail) and "svc" in str(x)]
            foreign = [x for x in lv if x not in mine and not isinstance(x, cancelled)]
            if out[0] != "raise" or not mine:
                fail("outcome", f"a service task crashed after start-up but run_application ended with {out!r}")
            elif foreign:
                fail("outcome", f"a service task crashed after start-up; run_application raised {out[1]!r}, which carries {foreign!r} besides the original exception")
        elif exp is not None and out != exp:
            fail("outcome", f"ending {end}: expected {exp}, run_application ended with {out!r}")


CHECK = C15()
