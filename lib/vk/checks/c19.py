"""C19 - @inject is equivalent to explicit lookups in the current context (engine E3 + a racing family on E1).

Functions are generated as source text (signature template x annotation spelling x marker x sync/async x
module-level/local definition) and exec-ed; each is called in a prepared context and compared with explicit
lookups on an identically prepared twin context.
"""

from __future__ import annotations

import itertools
from typing import Any, Optional

import anyio

from ..explore import E1Check, new_summary, run_main_asyncio

ANNS = ("T", "Optional[T]", "T | None", "'T'", "'Optional[T]'", "'T | None'", "future",
        "None | T", "Union[None, T]", "'Union[None, T]'", "Optional['T']", "Union['T', None]",
        # typing.Annotated carries metadata for other tools: the injected type is the annotated one
        "Annotated[T, 5]", "Optional[Annotated[T, 5]]", "'Annotated[T, 5]'")
STATES = ("static", "sync-factory", "async-factory", "inherited", "generated-in-parent", "missing", "broken-factory")
TEMPLATES = {
    # name: (signature with {r1} {r2} placeholders, ordinary parameter names, injected parameter names)
    "r": ("{r1}", [], ["r1"]),
    "o,r": ("o, {r1}", ["o"], ["r1"]),
    "o,r,*,k": ("o, {r1}, *, k", ["o", "k"], ["r1"]),
    "o,*,r": ("o, *, {r1}", ["o"], ["r1"]),
    "*,r,k=3": ("*, {r1}, k=3", [], ["r1"]),
    "od,r": ("od=7, {r1}", [], ["r1"]),
    "r,r": ("{r1}, {r2}", [], ["r1", "r2"]),
    "o,r,*,r": ("o, {r1}, *, {r2}", ["o"], ["r1", "r2"]),
    # ordinary parameters with names the decorator may be tempted to use for itself
    "resources,func,r": ("resources, func, {r1}", ["resources", "func"], ["r1"]),
    "o,*rest,r,r": ("o, *rest, {r1}, {r2}", ["o"], ["r1", "r2"]),  # called with extra positional arguments
    "r,*,args_,ctx": ("{r1}, *, wrapper, ctx", ["wrapper", "ctx"], ["r1"]),
}
REJECTS = ("posonly", "noannotation", "uncalled", "posonly-mixed", "noannotation-mixed", "uncalled-mixed", "uncalled-mixed-first")


def gen_source(template: str, ann1: str, ann2: str, name1: str, name2: str, is_async: bool, local: bool) -> str:
    sig, ords, injs = TEMPLATES[template]
    future = "future" in (ann1, ann2)

    def ann(a: str, T: str) -> str:
        if a == "future":
            return T
        return a.replace("T", T) if "'" not in a else a.replace("T", T)

    def marker(n: str) -> str:
        return "resource()" if n == "default" else f"resource({n!r})"

    r1 = f"r1: {ann(ann1, 'TA')} = {marker(name1)}"
    r2 = f"r2: {ann(ann2 if ann2 != 'future' else 'future', 'TB')} = {marker(name2)}"
    params = sig.format(r1=r1, r2=r2)
    bare = sig.format(r1="r1", r2="r2")  # (names from the template, not from the annotated text: annotations may contain commas)
    names = [p.strip().split(":")[0].split("=")[0].strip().lstrip("*") for p in bare.replace("*,", "").split(",") if p.strip() and p.strip() != "*"]
    body = "    REC.append({" + ", ".join(f"{n!r}: {n}" for n in names) + "})\n    return 'ret'\n"
    head = ("async def" if is_async else "def") + f" f({params}):\n"
    lines = []
    if future:
        lines.append("from __future__ import annotations")
    lines.append("from typing import Annotated, Optional, Union")
    lines.append("from asphalt.core import inject, resource")
    if local:
        lines.append("def make():")
        lines.append("    TA = _TA")
        lines.append("    TB = _TB")
        lines.append("    @inject")
        lines += ["    " + ln for ln in (head + body).rstrip("\n").split("\n")]
        lines.append("    return f")
        lines.append("f = make()")
    else:
        lines.append("TA = _TA")
        lines.append("TB = _TB")
        lines.append("@inject")
        lines += (head + body).rstrip("\n").split("\n")
    return "\n".join(lines) + "\n"


def reject_source(kind: str, is_async: bool) -> str:
    d = "async def" if is_async else "def"
    if kind == "posonly":
        sig = "r: TA = resource(), /"
    elif kind == "noannotation":
        sig = "r = resource()"
    elif kind == "posonly-mixed":
        sig = "r: TA = resource(), /, ok: TA = resource('x')"
    elif kind == "noannotation-mixed":
        sig = "ok: TA = resource('x'), r = resource()"
    elif kind == "uncalled-mixed":
        sig = "ok: TA = resource('x'), r: TA = resource"
    elif kind == "uncalled-mixed-first":
        sig = "r: TA = resource, *, ok: TA = resource()"
    else:
        sig = "r: TA = resource"
    return f"from asphalt.core import inject, resource\nTA = _TA\n@inject\n{d} f({sig}):\n    return 1\n"


class TA:
    def __init__(self, label: str) -> None:
        self.label = label


class TB:
    def __init__(self, label: str) -> None:
        self.label = label


def optional_of(ann: str) -> bool:
    return "Optional" in ann or "None" in ann


def all_cases(tier: str) -> list:
    out = []
    for template in TEMPLATES:
        two = len(TEMPLATES[template][2]) == 2
        for ann1 in ANNS:
            ann2s = (("T", "Optional[T]", "'T | None'") if tier == "thorough" else ("T",)) if two else ("T",)
            if two and ann1 == "future":
                ann2s = ("future",)
            for ann2 in ann2s:
                for name1 in ("default", "x", "9z"):  # ("9z": any \w+ name is a resource name, not only identifiers)
                    for is_async in (False, True):
                        for local in (False, True):
                            states1 = STATES
                            states2 = ("static", "missing", "async-factory") if two else ("static",)
                            for s1 in states1:
                                for s2 in states2:
                                    for caller in ("ctx", "nested", "factory-task"):
                                        for style in ("pos", "kw"):
                                            if tier == "quick":
                                                h = hash((template, ann1, ann2, name1, is_async, local, s1, s2, caller, style)) % 7
                                                if h not in (0,) and not (ann1 in ("Optional[T]", "T", "None | T", "Union[None, T]", "Optional['T']", "Union['T', None]") and caller == "ctx" and style == "pos" and not local):
                                                    continue
                                            out.append({"template": template, "ann1": ann1, "ann2": ann2, "name1": name1, "name2": "default",
                                                        "async": is_async, "local": local, "s1": s1, "s2": s2, "caller": caller, "style": style})
    for kind in REJECTS:
        for is_async in (False, True):
            out.append({"reject": kind, "async": is_async})
    for is_async in (False, True):
        for opt in (False, True):
            for state in ("static", "missing"):
                out.append({"late": True, "async": is_async, "optional": opt, "state": state})
                out.append({"late_local": True, "async": is_async, "optional": opt, "state": state})
                out.append({"wrapped": True, "async": is_async, "optional": opt, "state": state})
            if is_async:
                # a coroutine function that wraps (functools.wraps) a PLAIN function - e.g. a decorator that runs blocking code in a
                # worker thread: it is a coroutine function, so its resources come from the asynchronous lookup
                for state in ("static", "missing", "afactory"):
                    out.append({"wrapped": True, "mixed": True, "async": True, "optional": opt, "state": state})
    # injected functions called from a component's start(): the current context is a ComponentContext, whose non-optional
    # asynchronous lookup waits for a sibling's publication
    for is_async in (False, True):
        for opt in (False, True):
            for published in ("before", "after", "never"):
                out.append({"comp": True, "async": is_async, "optional": opt, "published": published})
    return out


class C19:
    id = "C19"
    engine = "E3+E1"
    level = "model_checking"
    backends = ["asyncio (controlled loop)"]
    assumptions = [
        "signatures of <= 3 parameters from 8 templates; 7 annotation spellings; names default/x; 6 context states per injected pair",
        "equivalence is judged against explicit lookups on an identically prepared twin context (compared by label) and by identity against "
        "a second lookup on the same context",
        "racing family: two tasks in two child contexts call the same injected coroutine function while an async factory is parked at a gate",
    ]

    def rule(self, tier: str) -> str:
        return ("case = signature template x annotation spelling(s) x marker name x sync/async x module-level/local definition x context state of "
                "each injected pair x caller (context, nested context, task-factory task) x positional/keyword call; plus three decoration-time "
                "rejections; plus racing calls under all schedules; quick keeps a deterministic 1/7 sample of the product plus all first-order "
                "cases; distinct by construction; non-trivial = the injected pair is not simply static")

    def bounds(self, tier: str) -> dict:
        return {"templates": list(TEMPLATES), "annotations": ANNS, "states": STATES}

    def units(self, tier: str, seed: int) -> list:
        n = len(all_cases(tier))
        step = max(1, n // 48)
        units: list = [{"lo": i, "hi": min(n, i + step)} for i in range(0, n, step)]
        units += [{"race": r} for r in RACE.units(tier, seed)]
        return units

    def run(self, env: Any, program: Any) -> None:
        run_main_asyncio(env, self.main, env, program)

    def verdict(self, env: Any, program: Any, outcome: str) -> None:
        pass

    def work(self, unit: dict, tier: str) -> dict:
        if "race" in unit:
            return RACE.work(unit["race"], tier)
        from ..explore import Chooser, reset_determinism
        from ..vloop import Env

        env = Env(Chooser([]), 0)
        env.horizon = 10**9
        reset_determinism(0)
        s = new_summary()
        cs = all_cases(tier)[unit["lo"]:unit["hi"]]
        try:
            self.run(env, {"cases": cs})
        except BaseException as e:  # noqa: BLE001
            import traceback

            s["errors"].append({"kind": "crash", "tb": "".join(traceback.format_exception(e))[-1500:]})
            return s
        res = env.data["res"]
        s["evaluations"] = len(cs)
        s["transitions"] = len(cs)
        s["states"] = len(cs)
        s["distinct"] = len(cs)
        s["nontrivial"] = sum(1 for c in cs if c.get("s1", "static") != "static")
        s["outcomes"] = {"done": len(cs)}
        s["violations"] = res["violations"][:4]
        kh: dict = {}
        for v in res["violations"]:
            for k in v["keys"]:
                kh[k] = kh.get(k, 0) + 1
        s["keyhist"] = kh
        s["samples"] = res["samples"][:1]
        return s

    # ------------------------------------------------------------------------------------------
    async def prepare_ctx(self, case: dict, rec: dict) -> tuple:
        """Build parent+context per the case's states; returns (exit stack, ctx)."""
        from contextlib import AsyncExitStack

        from asphalt.core import Context

        stack = AsyncExitStack()
        parent = await stack.enter_async_context(Context())
        specs = [("TA", TA, case["name1"], case["s1"])]
        if len(TEMPLATES[case["template"]][2]) == 2:
            specs.append(("TB", TB, case["name2"], case["s2"]))
        calls = rec.setdefault("calls", {})

        def sync_factory(T: type, key: str):
            def f() -> Any:
                calls[key] = calls.get(key, 0) + 1
                return T(f"{key}#{calls[key]}")

            return f

        def async_factory(T: type, key: str):
            async def f() -> Any:
                calls[key] = calls.get(key, 0) + 1
                return T(f"{key}#{calls[key]}")

            return f

        later = []
        for tn, T, name, state in specs:
            key = f"{tn}:{name}"
            if state == "inherited":
                parent.add_resource(T("inh:" + key), name, T)
            elif state == "generated-in-parent":
                parent.add_resource_factory(sync_factory(T, "pf:" + key), name, types=T)
                later.append((T, name))
        ctx = None
        # generated-in-parent: the factory is inherited; the parent's own product must not be
        for T, name in later:
            parent.get_resource_nowait(T, name)
        ctx = await stack.enter_async_context(Context())
        class Missing:
            pass

        def broken_factory(T: type, key: str):
            def f() -> Any:
                calls[key] = calls.get(key, 0) + 1
                # depends on a resource that is not there: ResourceNotFound escapes from the factory
                return T(str(ctx.get_resource_nowait(Missing)))

            return f

        for tn, T, name, state in specs:
            key = f"{tn}:{name}"
            if state == "broken-factory":
                ctx.add_resource_factory(broken_factory(T, "bf:" + key), name, types=T)
            if state == "static":
                ctx.add_resource(T("st:" + key), name, T)
            elif state == "sync-factory":
                ctx.add_resource_factory(sync_factory(T, "sf:" + key), name, types=T)
            elif state == "async-factory":
                ctx.add_resource_factory(async_factory(T, "af:" + key), name, types=T)
        return stack, ctx

    async def in_caller(self, case: dict, ctx: Any, fn) -> Any:
        """Run ``fn`` (async callable) from the place the case names; returns its result or exception."""
        from asphalt.core import Context

        async def guarded() -> tuple:
            try:
                return ("ok", await fn())
            except BaseException as e:  # noqa: BLE001
                if isinstance(e, (AssertionError,)):
                    raise
                return ("exc", type(e).__name__)

        if case["caller"] == "ctx":
            return await guarded()
        if case["caller"] == "nested":
            async with Context():
                return await guarded()
        factory = await ctx.start_background_task_factory()
        box: dict = {}

        async def task() -> None:
            box["r"] = await guarded()

        h = await factory.start_task(task)
        await h.wait_finished()
        return box["r"]

    async def main(self, env: Any, program: dict) -> None:
        from asphalt.core import get_resource, get_resource_nowait

        res = env.data["res"] = {"violations": [], "samples": []}
        for case in program["cases"]:
            fails: list = []
            if "late_local" in case or "wrapped" in case:
                fails = await self.scope_case(env, case)
            elif "late" in case:
                fails = await self.late_case(env, case)
            elif "comp" in case:
                fails = await self.comp_case(env, case)
            elif "reject" in case:
                ns: dict = {"_TA": TA, "_TB": TB, "REC": []}
                try:
                    exec(compile(reject_source(case["reject"], case["async"]), "<c19>", "exec", dont_inherit=True), ns)
                    fails.append(("not-rejected", f"decorating a function with a {case['reject']} resource marker did not raise"))
                except Exception:  # noqa: BLE001 - "rejected when the decorator is applied": the class is not stated
                    pass
            else:
                fails = await self.one_case(env, case, res)
            if fails:
                res["violations"].append({"keys": sorted({f[0] for f in fails}), "fails": [list(f) for f in fails[:4]], "program": case,
                                          "choices": [], "trace": [], "outcome": "done"})

    async def scope_case(self, env: Any, case: dict) -> list:
        """(late_local) a locally defined injected function whose string annotation names a class that is bound further down in the
        enclosing function, first called when the class exists; (wrapped) @inject stacked on a functools.wraps-based decorator:
        the markers of the wrapped function's signature are honoured."""
        import warnings

        from asphalt.core import Context, ResourceNotFound, get_resource, get_resource_nowait

        fails: list = []
        d = "async def" if case["async"] else "def"
        if "late_local" in case:
            ann = "'Optional[Svc]'" if case["optional"] else "'Svc'"
            src = (f"from typing import Optional\nfrom asphalt.core import inject, resource\n"
                   f"def build():\n"
                   f"    @inject\n    {d} first(r: {ann} = resource()):\n        REC.append(r)\n        return 'ret'\n"
                   f"    class Svc:\n        pass\n"
                   f"    @inject\n    {d} second(r: {ann} = resource()):\n        REC2.append(r)\n        return 'ret2'\n"
                   f"    return first, second, Svc\n"
                   f"f, f2, TheSvc = build()\n")  # (the class is deliberately NOT a module-level name called Svc)
        else:
            ann = "Optional[Svc]" if case["optional"] else "Svc"
            aw = "await " if case["async"] and not case.get("mixed") else ""
            inner_d = "def" if case.get("mixed") else d
            src = (f"import functools\nfrom typing import Optional\nfrom asphalt.core import inject, resource\n"
                   f"class Svc:\n    pass\n"
                   f"def logged(fn):\n"
                   f"    @functools.wraps(fn)\n    {d} wrapper(*args, **kwargs):\n        CALLS.append(fn.__name__)\n        return {aw}fn(*args, **kwargs)\n"
                   f"    return wrapper\n"
                   f"@inject\n@logged\n{inner_d} f(r: {ann} = resource()):\n    REC.append(r)\n    return 'ret'\n")
        ns: dict = {"REC": [], "REC2": [], "CALLS": []}
        try:
            with warnings.catch_warnings():
                warnings.simplefilter("ignore")
                exec(compile(src, "<c19-scope>", "exec", dont_inherit=True), ns)
        except BaseException as e:  # noqa: BLE001
            return [("decoration", f"decorating raised {e!r}\n{src}")]
        f, Svc = ns["f"], ns.get("TheSvc") or ns["Svc"]
        async with Context() as ctx:
            if case["state"] == "static":
                ctx.add_resource(Svc(), types=Svc)
            elif case["state"] == "afactory":
                async def make_svc() -> Any:
                    return Svc()

                ctx.add_resource_factory(make_svc, types=Svc)
            kw = {"optional": True} if case["optional"] else {}

            async def explicit() -> Any:
                try:
                    return ("ok", (await get_resource(Svc, **kw)) if case["async"] else get_resource_nowait(Svc, **kw))
                except ResourceNotFound:
                    return ("exc", "ResourceNotFound")

            exp: Any = None
            if case["state"] != "afactory":
                exp = await explicit()
            try:
                r = f()
                if case["async"]:
                    r = await r
                got: Any = ("ok", r)
            except BaseException as e:  # noqa: BLE001
                got = ("exc", type(e).__name__)
            if exp is None:
                # (with a factory the injected call comes first: it is the call that has to generate the resource)
                exp = await explicit()
            what = "late_local" if "late_local" in case else "wrapped"
            if exp[0] == "exc":
                if got != exp:
                    fails.append((what, f"explicit lookup raises {exp[1]}, the injected call gave {got!r}"))
                elif ns["REC"]:
                    fails.append((what, "the lookup fails but the function body ran"))
            elif got != ("ok", "ret") or not ns["REC"] or ns["REC"][-1] is not exp[1]:
                fails.append((what, f"explicit lookup returns {exp[1]!r}, the injected call gave {got!r} with argument {ns['REC'][-1:]!r}"))
            if "late_local" in case and "f2" in ns:
                # a SIBLING injected function defined in the same scope, first called after the first one: same outcome
                try:
                    r2 = ns["f2"]()
                    if case["async"]:
                        r2 = await r2
                    got2: Any = ("ok", r2)
                except BaseException as e:  # noqa: BLE001
                    got2 = ("exc", type(e).__name__)
                if exp[0] == "exc":
                    if got2 != exp:
                        fails.append((what, f"sibling function: explicit lookup raises {exp[1]}, the injected call gave {got2!r}"))
                elif got2 != ("ok", "ret2") or not ns["REC2"] or ns["REC2"][-1] is not exp[1]:
                    fails.append((what, f"sibling function defined in the same scope: explicit lookup returns {exp[1]!r}, the injected call gave {got2!r}"))
        return fails

    async def late_case(self, env: Any, case: dict) -> list:
        """A string forward reference whose class does not exist yet at the first call: that call fails; once the class is defined
        the function must behave like the explicit lookup (forward references are resolved lazily, at call time)."""
        import warnings

        from asphalt.core import Context, ResourceNotFound, get_resource, get_resource_nowait

        fails: list = []
        ann = "'Optional[Late]'" if case["optional"] else "'Late'"
        d = "async def" if case["async"] else "def"
        src = (f"from typing import Optional\nfrom asphalt.core import inject, resource\n@inject\n{d} f(r: {ann} = resource()):\n"
               f"    REC.append(r)\n    return 'ret'\n")
        ns: dict = {"REC": []}
        try:
            with warnings.catch_warnings():
                warnings.simplefilter("ignore")
                exec(compile(src, "<c19-late>", "exec", dont_inherit=True), ns)
        except BaseException as e:  # noqa: BLE001
            return [("decoration", f"decorating a function with a not-yet-defined forward reference raised {e!r}")]
        f = ns["f"]

        async def call() -> tuple:
            try:
                r = f()
                if case["async"]:
                    r = await r
                return ("ok", r)
            except BaseException as e:  # noqa: BLE001
                return ("exc", type(e).__name__)

        async with Context() as ctx:
            first = await call()
            if first[0] != "exc":
                fails.append(("late-ref", f"the call made before the annotated class existed returned {first!r}"))
            ns["REC"].clear()

            class Late:
                pass

            ns["Late"] = Late
            if case["state"] == "static":
                val = Late()
                ctx.add_resource(val, types=Late)
            kw = {"optional": True} if case["optional"] else {}
            try:
                exp: Any = ("ok", (await get_resource(Late, **kw)) if case["async"] else get_resource_nowait(Late, **kw))
            except ResourceNotFound:
                exp = ("exc", "ResourceNotFound")
            second = await call()
            if exp[0] == "exc":
                if second != exp:
                    fails.append(("late-ref", f"after the class was defined: explicit lookup raises {exp[1]}, the injected call gave {second!r}"))
            elif second != ("ok", "ret") or not ns["REC"] or ns["REC"][-1] is not exp[1]:
                fails.append(("late-ref", f"after the class was defined: explicit lookup returns {exp[1]!r}, the injected call gave {second!r} with argument {ns['REC'][-1:]!r}"))
        return fails

    async def comp_case(self, env: Any, case: dict) -> list:
        """An injected function called inside Component.start() next to a sibling that publishes the resource before / after the call
        (or never): same outcome as the explicit lookup made at the same place."""
        from asphalt.core import Component, Context, get_resource, get_resource_nowait, inject, resource, start_component

        fails: list = []
        opt = case["optional"]

        if case["async"]:
            if opt:
                @inject
                async def f(tag: str, *, r: Optional[TA] = resource()) -> Any:
                    return (tag, r)
            else:
                @inject
                async def f(tag: str, *, r: TA = resource()) -> Any:  # type: ignore[misc]
                    return (tag, r)
        else:
            if opt:
                @inject
                def f(tag: str, *, r: Optional[TA] = resource()) -> Any:  # type: ignore[misc]
                    return (tag, r)
            else:
                @inject
                def f(tag: str, *, r: TA = resource()) -> Any:  # type: ignore[misc]
                    return (tag, r)

        async def run(mode: str) -> tuple:
            asked = anyio.Event()
            box: dict = {}

            class Consumer(Component):
                async def start(self) -> None:
                    asked.set()
                    try:
                        if mode == "explicit":
                            kw = {"optional": True} if opt else {}
                            v = (await get_resource(TA, **kw)) if case["async"] else get_resource_nowait(TA, **kw)
                            box["r"] = ("ok", getattr(v, "label", None))
                        else:
                            v = f("t")
                            if case["async"]:
                                v = await v
                            box["r"] = ("ok", getattr(v[1], "label", None)) if v[0] == "t" else ("bad-passthrough", v)
                    except Exception as e:  # noqa: BLE001
                        box["r"] = ("exc", type(e).__name__)

            class Provider(Component):
                async def start(self) -> None:
                    from asphalt.core import add_resource

                    if case["published"] == "before":
                        add_resource(TA("published"))
                    elif case["published"] == "after":
                        await asked.wait()
                        await anyio.lowlevel.checkpoint()
                        add_resource(TA("published"))

            class Root(Component):
                def __init__(self) -> None:
                    if case["published"] == "before":
                        self.add_component("provider", Provider)
                        self.add_component("consumer", Consumer)
                    else:
                        self.add_component("consumer", Consumer)
                        self.add_component("provider", Provider)

            try:
                async with Context():
                    await start_component(Root, {}, timeout=5)
            except BaseException as e:  # noqa: BLE001
                return ("start-failed", type(e).__name__, box.get("r"))
            return box.get("r", ("no-result",))

        exp = await run("explicit")
        got = await run("injected")
        if exp != got:
            fails.append(("component-context", f"inside Component.start() (resource published {case['published']}): the explicit lookup gives {exp!r}, "
                                               f"the injected call gives {got!r}"))
        return fails

    async def one_case(self, env: Any, case: dict, res: dict) -> list:
        import warnings

        from asphalt.core import get_resource, get_resource_nowait

        fails: list = []
        src = gen_source(case["template"], case["ann1"], case["ann2"], case["name1"], case["name2"], case["async"], case["local"])
        ns: dict = {"_TA": TA, "_TB": TB, "REC": []}
        try:
            with warnings.catch_warnings():
                warnings.simplefilter("ignore")
                exec(compile(src, "<c19>", "exec", dont_inherit=True), ns)
        except BaseException as e:  # noqa: BLE001
            return [("decoration", f"decorating a valid function raised {e!r}\n{src}")]
        f = ns["f"]
        sig, ords, injs = TEMPLATES[case["template"]]
        if len(res["samples"]) < 1 and case["local"] and case["s1"] != "static":
            res["samples"].append({"case": case, "source": src})
        ordvals = {"o": "ordinary-o", "k": "kwonly-k", "resources": "ordinary-resources", "func": "ordinary-func", "wrapper": "kwonly-wrapper",
                   "ctx": "kwonly-ctx"}
        args, kwargs = [], {}
        for o in ords:
            if o in ("k", "wrapper", "ctx") or (case["style"] == "kw" and "*rest" not in sig):
                kwargs[o] = ordvals[o]
            else:
                args.append(ordvals[o])
        if "*rest" in sig:
            args += ["extra-1", "extra-2", "extra-3"]
        opt = {"r1": optional_of(case["ann1"]), "r2": optional_of(case["ann2"])}
        pairs = {"r1": (TA, case["name1"]), "r2": (TB, case["name2"])}
        # twin: explicit lookups
        rec_b: dict = {}
        stack_b, ctx_b = await self.prepare_ctx(case, rec_b)
        async with stack_b:
            async def explicit() -> dict:
                out = {}
                for r in injs:
                    T, name = pairs[r]
                    kw = {"optional": True} if opt[r] else {}
                    if case["async"]:
                        out[r] = await get_resource(T, name, **kw)
                    else:
                        out[r] = get_resource_nowait(T, name, **kw)
                return out

            exp = await self.in_caller(case, ctx_b, explicit)
        # the injected call
        rec_a: dict = {}
        stack_a, ctx_a = await self.prepare_ctx(case, rec_a)
        async with stack_a:
            async def injected() -> Any:
                r = f(*args, **kwargs)
                if case["async"]:
                    r = await r
                got = dict(ns["REC"][-1]) if ns["REC"] else None
                # a second lookup in the same (current) context returns the very same objects
                again = {}
                for r_ in injs:
                    T, name = pairs[r_]
                    kw = {"optional": True} if opt[r_] else {}
                    again[r_] = (await get_resource(T, name, **kw)) if case["async"] else get_resource_nowait(T, name, **kw)
                return r, got, again

            got = await self.in_caller(case, ctx_a, injected)
        lab = lambda v: getattr(v, "label", None) if v is not None else None  # noqa: E731
        if exp[0] == "exc":
            if got[0] != "exc" or got[1] != exp[1]:
                fails.append(("exception", f"explicit lookups raise {exp[1]}; the injected call gave {got!r}"))
            elif ns["REC"]:
                fails.append(("body-ran", f"the lookup fails with {exp[1]} but the function body ran"))
        else:
            if got[0] != "ok":
                fails.append(("exception", f"explicit lookups succeed ({ {k: lab(v) for k, v in exp[1].items()} }) but the injected call raised {got[1]}"))
            else:
                ret, body, again = got[1]
                if ret != "ret" or body is None:
                    fails.append(("passthrough", f"return value {ret!r}, body record {body!r}"))
                else:
                    for r in injs:
                        if lab(body.get(r)) != lab(exp[1][r]):
                            fails.append(("injected-value", f"parameter {r}: injected {lab(body.get(r))!r}, explicit lookup gives {lab(exp[1][r])!r}"))
                        if body.get(r) is not again[r]:
                            fails.append(("identity", f"parameter {r}: injected object is not what a later lookup in the same context returns"))
                    for o in ords:
                        if body.get(o) != ordvals[o]:
                            fails.append(("passthrough", f"ordinary argument {o}: got {body.get(o)!r}"))
                    if "rest" in body and tuple(body["rest"]) != ("extra-1", "extra-2", "extra-3"):
                        fails.append(("passthrough", f"extra positional arguments arrived as {body['rest']!r}"))
                    if "od" in body and body["od"] != 7:
                        fails.append(("passthrough", f"default of od changed to {body['od']!r}"))
                    if "k" in body and "k" not in ords and body["k"] != 3:
                        fails.append(("passthrough", f"default of k changed to {body['k']!r}"))
        if rec_a.get("calls") != rec_b.get("calls"):
            fails.append(("factory-calls", f"factory calls with injection {rec_a.get('calls')}, with explicit lookups {rec_b.get('calls')}"))
        return fails

    def replay(self, rec: dict) -> Any:
        if "race" in rec.get("program", {}):
            return RACE.replay(dict(rec, program=rec["program"]["race"]) if "race" in rec["program"] and "tasks" not in rec["program"] else rec)
        from ..explore import Chooser, reset_determinism
        from ..vloop import Env

        env = Env(Chooser([]), 0)
        env.horizon = 10**9
        reset_determinism(0)
        self.run(env, {"cases": [rec["program"]]})
        v = env.data["res"]["violations"]
        for x in v:
            for f in x["fails"]:
                print("FAIL", f[0], "-", f[1])
        if v:
            print(f"VIOLATION property=C19 replay={rec.get('_path', '')}")
            return 1
        print("no violation on this tree")
        return 0


class Race(E1Check):
    """Two (three) tasks in their own child contexts call the same @inject coroutine function concurrently."""

    id = "C19"

    def units(self, tier: str, seed: int) -> list:
        out = []
        for n in ((2,) if tier == "quick" else (2, 3)):
            for order in (("static", "factory"), ("factory", "static"), ("factory", "factory")):
                for pre in itertools.product((False, True), repeat=n):
                    out.append({"race": True, "n": n, "params": list(order), "pre": list(pre)})
        return out

    def bound(self, tier: str, program: Any) -> int:
        return 1 if tier == "quick" else 2

    def hash_modes(self, tier: str, program: Any) -> tuple:
        return (0,)

    def work(self, unit: Any, tier: str) -> dict:
        s = super().work(unit, tier)
        for v in s["violations"]:
            v["program"] = {"race": v["program"]}
        return s

    def replay(self, rec: dict) -> Any:
        from ..explore import execute

        return execute(self, rec["program"], rec["choices"], rec.get("hash_mode", 0))

    async def main(self, env: Any, program: dict) -> None:
        from asphalt.core import Context, inject, resource

        p = program

        @inject
        async def f(tag: str, a: TA = resource(), b: TB = resource()) -> tuple:
            return tag, a, b

        results: dict = {}

        def make_factory(T: type, who: str, kind: str):
            async def fac() -> Any:
                env.log("factory+", who, kind)
                await env.gate(f"fac:{who}:{kind}")
                env.log("factory-", who, kind)
                return T(f"{who}:{kind}")

            return fac

        async def caller(i: int) -> None:
            who = f"t{i}"
            async with Context() as ctx:
                for kind, T in (("a", TA), ("b", TB)):
                    how = p["params"][0 if kind == "a" else 1]
                    if how == "static":
                        ctx.add_resource(T(f"{who}:{kind}"), types=T)
                    else:
                        ctx.add_resource_factory(make_factory(T, who, kind), types=T)
                if p["pre"][i]:
                    await env.gate(f"go:{who}")
                env.log("call+", who)
                tag, a, b = await f(who)
                env.log("call-", who, a.label, b.label)
                results[who] = (tag, a.label, b.label)

        async with Context():
            async with anyio.create_task_group() as tg:
                for i in range(p["n"]):
                    tg.start_soon(caller, i)
        for who, (tag, a, b) in results.items():
            if tag != who or a != f"{who}:a" or b != f"{who}:b":
                env.fail("cross-talk", f"the call made in {who}'s context received ({tag}, {a}, {b})")


RACE = Race()
CHECK = C19()
