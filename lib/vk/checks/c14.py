"""C14 - component configuration is a layered deep merge that fully determines the tree (engine E3)."""

from __future__ import annotations

import copy
import itertools
from typing import Any

from ..explore import new_summary, run_main_asyncio

ABSENT = "<absent>"

A_MENU = [
    ABSENT, {}, {"x": 2}, {"d": {"p": 2}}, {"d": {"q": {"s": 3}}}, {"d": 5}, {"x": {"deep": 1}}, {"z": 9},
    {"type": "CLS:A2"}, {"type": "vkplugins.comps:A2", "x": 3}, {"type": "ep_a2"},
]
G_MENU = [ABSENT, {}, {"y": 2}, {"type": "ep_g2"}, {"type": "CLS:G2", "y": {"n": 1}}, {"extra": [1, 2]}]
C_MENU = [ABSENT, {"type": "CLS:C"}, {"type": "vkplugins.comps:C", "w": 1}, {"type": "ep_c", "w": {"v": 1}}, {"type": "vkplugins.comps:NS.C2", "w": 5}]
EP_ALIAS_MENU = [ABSENT, ("ep_c", None), ("ep_c", {"w": 2}), ("ep_k/m", {"tag": "m", "pdef": False}), ("ep_k/m2", {"tag": "m2", "pdef": False}),
                 ("ep_dyn/d", {"tag": "d"}), ("ep_dyn", {"tag": "e"})]
KN_MENU = [ABSENT, {"tag": "n2"}, {"type": "ep_k"}]
GC_MENU = [ABSENT, ("ep_c", None), ("ep_c", {"w": 4}), ("ep_k/q", {"tag": "q", "pdef": False})]


def resolve_cls(t: Any) -> type:
    import vkplugins.comps as vc

    if isinstance(t, type):
        return t
    if t.startswith("CLS:"):
        return getattr(vc, t[4:])
    if ":" in t:
        obj: Any = vc
        for part in t.split(":")[1].split("."):
            obj = getattr(obj, part)
        return obj
    return {"ep_a2": vc.A2, "ep_g2": vc.G2, "ep_c": vc.C, "ep_k": vc.K, "ep_dyn": vc.Dyn}[t]


def materialise(x: Any) -> Any:
    """turn 'CLS:Name' markers into real classes (the config then contains class objects)"""
    import vkplugins.comps as vc

    if isinstance(x, dict):
        return {k: materialise(v) for k, v in x.items()}
    if isinstance(x, list):
        return [materialise(v) for v in x]
    if isinstance(x, str) and x.startswith("CLS:"):
        return getattr(vc, x[4:])
    return x


def ref_merge(a: Any, b: Any) -> dict:
    out = dict(a or {})
    for k, v in (b or {}).items():
        if isinstance(out.get(k), dict) and isinstance(v, dict):
            out[k] = ref_merge(out[k], v)
        else:
            out[k] = v
    return out


def expected_tree(root_cls_name: str, config: dict) -> tuple[list, dict]:
    """Reference: list of (class name, kwargs) and expected resources {(type name, name): label}."""
    import vkplugins.comps as vc

    ctors: list = []
    resources: dict = {}

    def hard(cls: type, kw: dict) -> dict:
        h: dict = {}
        if issubclass(cls, vc.A):
            h["g"] = {"type": vc.G, "y": 1, "opt": None}
        if issubclass(cls, vc.K):
            h["w"] = {"type": vc.W, "tag": kw.get("tag", "")}
        if issubclass(cls, vc.Root):
            h["a"] = {"type": vc.A, "x": 1, "d": {"p": 1, "q": {"r": 1}}}
        if issubclass(cls, vc.RootK):
            h["k/n"] = {"type": vc.K, "tag": "n", "pdef": False}
        return h

    def visit(cls: type, cfg: dict, default_name: str) -> None:
        cfg = dict(cfg)
        ext = cfg.pop("components", {}) or {}
        cfg.pop("type", None)
        ctors.append((cls.__name__, cfg))
        tag = cfg.get("tag", "")
        fam0 = cls.family
        fam = fam0 + (tag if cls.per_tag else "")
        if cfg.get("pdef", True):
            resources[(f"R_{fam}_p", "default")] = f"{cls.__name__}:{tag}:prepare-default"
        resources[(f"R_{fam}_p", f"np_{fam0}{tag}")] = f"{cls.__name__}:{tag}:prepare-named"
        resources[(f"R_{fam}_s", default_name)] = f"{cls.__name__}:{tag}:start-default"
        resources[(f"R_{fam}_s", f"ns_{fam0}{tag}")] = f"{cls.__name__}:{tag}:start-named"
        # default-named factories: remapped in start() only, exactly like resources
        resources[(f"R_{fam0}{tag}_pf", "default")] = f"{cls.__name__}:{tag}:prepare-factory"
        resources[(f"R_{fam0}{tag}_sf", default_name)] = f"{cls.__name__}:{tag}:start-factory"
        if issubclass(cls, vc.Dyn):
            visit(vc.Inner, {"tag": "in" + tag}, "default")
        merged = ref_merge(hard(cls, cfg), ext)
        for alias, cc in merged.items():
            cc = dict(cc or {})
            t = cc.get("type", alias)
            if isinstance(t, str) and "/" in t:
                t = t.split("/")[0]
            cc["type"] = t
            dn = alias.split("/", 1)[1] if "/" in alias else "default"
            visit(resolve_cls(t), cc, dn)

    visit(getattr(vc, root_cls_name), config, "default")
    return ctors, resources


def configs(tier: str) -> list:
    out = []
    for rootk in (False, True):
        for a, g, c, ep, kn, gc_ in itertools.product(A_MENU, G_MENU, C_MENU, EP_ALIAS_MENU, KN_MENU, GC_MENU):
            if kn is not ABSENT and not rootk:
                continue
            if gc_ is not ABSENT and gc_[0] == "ep_c" and (c is not ABSENT or (ep is not ABSENT and ep[0] == "ep_c")):
                continue  # two components of class C would publish conflicting resources
            if c is not ABSENT and ep is not ABSENT and ep[0] == "ep_c":
                continue  # two components of class C would publish conflicting resources
            if tier == "quick":
                # pairwise-ish reduction: vary at most three menus away from their first entries
                nd = sum(1 for m, v in ((A_MENU, a), (G_MENU, g), (C_MENU, c), (EP_ALIAS_MENU, ep), (KN_MENU, kn), (GC_MENU, gc_)) if v is not m[0])
                if nd > 2:
                    continue
            comps: dict = {}
            if a is not ABSENT:
                comps["a"] = copy.deepcopy(a)
            if g is not ABSENT:
                if comps.get("a") is None:
                    comps["a"] = {}  # (None for a hard-coded child would erase its type: a user error, not generated)
                comps["a"].setdefault("components", {})["g"] = copy.deepcopy(g)
            if gc_ is not ABSENT:
                if comps.get("a") is None:
                    comps["a"] = {}
                comps["a"].setdefault("components", {})[gc_[0]] = copy.deepcopy(gc_[1])
            if c is not ABSENT:
                comps["c"] = copy.deepcopy(c)
            if ep is not ABSENT:
                comps[ep[0]] = copy.deepcopy(ep[1])
            if kn is not ABSENT:
                comps["k/n"] = copy.deepcopy(kn)
            cfg: dict = {"components": comps} if comps else {}
            for extra in ((None,) if tier == "quick" else (None, {"top": 1})):
                full = dict(cfg)
                if extra:
                    full.update(extra)
                out.append({"root": "RootK" if rootk else "Root", "config": full})
    return out


def deep_same(x: Any, y: Any) -> bool:
    if type(x) is not type(y):
        return False
    if isinstance(x, dict):
        return list(x.keys()) == list(y.keys()) and all(deep_same(x[k], y[k]) for k in x)
    if isinstance(x, (list, tuple)):
        return len(x) == len(y) and all(deep_same(a, b) for a, b in zip(x, y))
    return x == y or x is y


class C14:
    id = "C14"
    engine = "E3"
    level = "model_checking"
    backends = ["asyncio (controlled loop, default schedule)"]
    assumptions = [
        "class hierarchy Root(a(g)) with optional hard-coded k/n; external configuration built from per-alias menus (see bounds)",
        "types are named as class objects, vkplugins.comps:Name references, entry points of a fake distribution on PYTHONPATH, or omitted",
    ]

    def rule(self, tier: str) -> str:
        return ("every combination of the per-alias menus (quick: at most two menus away from their default) is started three times (same object "
                "twice, then a deep copy of the pristine configuration); constructor kwargs of every component, the set of components, the names "
                "under which resources appear and the configuration object afterwards are compared with an independent reference; all cases are "
                "distinct; non-trivial = the external configuration is not empty")

    def bounds(self, tier: str) -> dict:
        return {"a_menu": len(A_MENU), "g_menu": len(G_MENU), "c_menu": len(C_MENU), "alias_menu": len(EP_ALIAS_MENU), "kn_menu": len(KN_MENU)}

    def units(self, tier: str, seed: int) -> list:
        cs = configs(tier)
        step = max(1, len(cs) // 48)
        return [{"lo": i, "hi": min(len(cs), i + step)} for i in range(0, len(cs), step)] + [{"rebind": how} for how in ("root", "child", "config", "alias-ref", "alias-ref-config", "mapping-wrapper", "mapping-chain", "unicode-name")]

    def rebind_unit(self, unit: dict) -> dict:
        """A `module:attr` reference names what the module attribute IS when the tree is started: after the attribute has been bound
        to another class (a reloaded plug-in), the same reference gives the new class, as the class object itself would."""
        import anyio

        fails: list = []

        async def alias_ref() -> None:
            """a child whose alias is `<module:attr reference>/<name>` and whose type defaults to the alias: type = the reference, and
            default-named resources added in start() appear under <name>"""
            from asphalt.core import Component, Context, start_component

            from vkplugins import comps

            class P(Component):
                def __init__(self) -> None:
                    if unit["rebind"] == "alias-ref":
                        self.add_component("vkplugins.comps:C/nm", tag="t")

            cfg = {"components": {"vkplugins.comps:C/nm": {"tag": "t"}}} if unit["rebind"] == "alias-ref-config" else {}
            comps.REC.clear()
            async with Context() as ctx:
                await start_component(P, cfg, timeout=None)
                ctors = [r for r in comps.REC if r[0] == "ctor"]
                if ctors != [("ctor", "C", {"tag": "t"})]:
                    fails.append(("component-type", f"alias 'vkplugins.comps:C/nm' without an explicit type: constructed {ctors}, expected class C once"))
                names = sorted(n for n in ctx.get_resources(comps.rtype("C", "s")))
                if "nm" not in names:
                    fails.append(("resource-names", f"default-named resource added in start() of 'vkplugins.comps:C/nm' is registered under {names}"))

        async def mapping_cfg() -> None:
            """the root configuration may be any mutable mapping: it is honoured like a dict and left unmodified (reusable)"""
            import collections

            from asphalt.core import Context, start_component

            from vkplugins import comps

            def make() -> Any:
                inner = {"components": {"a": {"x": 5}, "extra": {"type": "vkplugins.comps:C", "tag": "e"}}}
                if unit["rebind"] == "mapping-chain":
                    return collections.ChainMap({}, inner)
                return collections.UserDict(inner)

            cfg = make()
            runs = []
            for _ in range(2):
                comps.REC.clear()
                async with Context():
                    await start_component(comps.Root, cfg, timeout=None)
                runs.append([r for r in comps.REC if r[0] == "ctor"])
            comps.REC.clear()
            async with Context():
                await start_component(comps.Root, make().data if unit["rebind"] == "mapping-wrapper" else dict(make()), timeout=None)
            ref = [r for r in comps.REC if r[0] == "ctor"]
            if runs[0] != ref:
                fails.append(("ctor-kwargs", f"root configuration given as a {type(cfg).__name__}: constructed {runs[0]}, the same configuration as a dict gives {ref}"))
            if runs[1] != runs[0]:
                fails.append(("reuse", f"second start from the same {type(cfg).__name__} object constructed {runs[1]}, the first start {runs[0]}"))
            if dict(cfg) != dict(make()):
                fails.append(("config-modified", f"the {type(cfg).__name__} passed to start_component changed to {dict(cfg)!r}"))

        async def unicode_name() -> None:
            """the name part of a kind/name alias may be any word (\\w+), not only ASCII: default-named resources of start() go there"""
            from asphalt.core import Context, start_component

            from vkplugins import comps

            for suffix in ("données", "архив_3", "ストア2"):
                comps.REC.clear()
                try:
                    async with Context() as ctx:
                        await start_component(comps.Root, {"components": {f"ep_c/{suffix}": {"tag": "u"}}}, timeout=None)
                        names = sorted(ctx.get_resources(comps.rtype("C", "s")))
                        if suffix not in names:
                            fails.append(("resource-names", f"component 'ep_c/{suffix}': its default-named start() resource is registered under {names}"))
                except BaseException as e:  # noqa: BLE001
                    fails.append(("start-failed", f"a component with the alias 'ep_c/{suffix}' could not be started: {e!r} / {getattr(e, '__cause__', None)!r}"))

        async def main() -> None:
            if unit["rebind"] == "unicode-name":
                return await unicode_name()
            if unit["rebind"].startswith("alias-ref"):
                return await alias_ref()
            if unit["rebind"].startswith("mapping"):
                return await mapping_cfg()
            import vkplugins.comps as mod
            from asphalt.core import Component, Context, start_component

            made: list = []

            def make_class(tag: str) -> type:
                class Swapped(Component):
                    def __init__(self, **kw: Any) -> None:
                        made.append(tag)

                return Swapped

            class Parent(Component):
                def __init__(self) -> None:
                    if unit["rebind"] == "child":
                        self.add_component("c", type="vkplugins.comps:Swappable")

            for tag in ("first", "second"):
                mod.Swappable = make_class(tag)  # type: ignore[attr-defined]
                async with Context():
                    if unit["rebind"] == "root":
                        await start_component("vkplugins.comps:Swappable", {}, timeout=None)
                    elif unit["rebind"] == "child":
                        await start_component(Parent, {}, timeout=None)
                    else:
                        await start_component(Parent, {"components": {"c": {"type": "vkplugins.comps:Swappable"}}}, timeout=None)
            if made != ["first", "second"]:
                fails.append(("component-type", f"the reference vkplugins.comps:Swappable was started twice with the attribute re-bound in between: "
                                                f"classes instantiated {made}, expected ['first', 'second']"))

        try:
            anyio.run(main)
        except BaseException as e:  # noqa: BLE001
            fails.append(("component-type", f"scenario raised {e!r}"))
        s = new_summary()
        s["evaluations"] = s["transitions"] = s["states"] = s["distinct"] = s["nontrivial"] = 1
        s["outcomes"] = {"done": 1}
        if fails:
            s["violations"].append({"keys": sorted({f[0] for f in fails}), "fails": [list(f) for f in fails], "program": dict(unit), "choices": [], "trace": [],
                                    "outcome": "done"})
            s["keyhist"] = {fails[0][0]: 1}
        return s

    def run(self, env: Any, program: Any) -> None:
        run_main_asyncio(env, self.main, env, program)

    def verdict(self, env: Any, program: Any, outcome: str) -> None:
        pass

    def work(self, unit: dict, tier: str) -> dict:
        if "rebind" in unit:
            return self.rebind_unit(unit)
        from ..explore import Chooser, reset_determinism
        from ..vloop import Env

        env = Env(Chooser([]), 0)
        env.horizon = 10**9
        reset_determinism(0)
        s = new_summary()
        cs = configs(tier)[unit["lo"]:unit["hi"]]
        try:
            self.run(env, {"cases": cs})
        except BaseException as e:  # noqa: BLE001
            import traceback

            s["errors"].append({"kind": "crash", "tb": "".join(traceback.format_exception(e))[-1500:]})
            return s
        res = env.data["res"]
        s["evaluations"] = res["starts"]
        s["transitions"] = res["starts"]
        s["states"] = len(cs)
        s["distinct"] = len(cs)
        s["nontrivial"] = sum(1 for c in cs if c["config"])
        s["outcomes"] = {"done": res["starts"]}
        s["violations"] = res["violations"][:4]
        kh: dict = {}
        for v in res["violations"]:
            for k in v["keys"]:
                kh[k] = kh.get(k, 0) + 1
        s["keyhist"] = kh
        s["samples"] = res["samples"][:1]
        return s

    async def start_once(self, root: str, cfg: Any) -> tuple:
        import vkplugins.comps as vc
        from asphalt.core import Context, start_component

        vc.REC.clear()
        async with Context() as ctx:
            await start_component(getattr(vc, root), cfg, timeout=None)
            resources = {}
            for tn, T in list(vc.RES_TYPES.items()):
                if tn.endswith("f"):
                    # factories: which names resolve (a child context is used so that nothing is generated in ctx itself)
                    async with Context() as probe:
                        for name in ("default", "n", "n2", "m", "m2", "q", "d"):
                            v = probe.get_resource_nowait(T, name, optional=True)
                            if v is not None:
                                resources[("R_" + tn, name)] = v.label
                    continue
                for name, v in ctx.get_resources(T).items():
                    resources[("R_" + tn, name)] = v.label
        ctors = [(c[1], c[2]) for c in vc.REC if c[0] == "ctor"]
        return ctors, resources

    async def main(self, env: Any, program: dict) -> None:
        res = env.data["res"] = {"starts": 0, "violations": [], "samples": []}
        for case in program["cases"]:
            fails: list = []
            cfg = materialise(copy.deepcopy(case["config"]))
            pristine = copy.deepcopy(cfg)
            exp_ctors, exp_res = expected_tree(case["root"], copy.deepcopy(pristine))
            key = lambda t: repr(t)  # noqa: E731
            runs = []
            for attempt, c in (("first", cfg), ("same-object-again", cfg), ("equal-copy", copy.deepcopy(pristine))):
                try:
                    got = await self.start_once(case["root"], c)
                    res["starts"] += 1
                except BaseException as e:  # noqa: BLE001
                    fails.append(("reuse" if attempt == "same-object-again" else "start-failed", f"{attempt}: start_component raised {type(e).__name__}: {str(e)[:200]}"))
                    continue
                runs.append((attempt, got))
                if sorted(got[0], key=key) != sorted(exp_ctors, key=key):
                    fails.append(("kwargs" if attempt != "same-object-again" else "reuse",
                                  f"{attempt}: constructors received {sorted(got[0], key=key)}, reference merge gives {sorted(exp_ctors, key=key)}"))
                if got[1] != exp_res:
                    diff = {k: (got[1].get(k), exp_res.get(k)) for k in set(got[1]) | set(exp_res) if got[1].get(k) != exp_res.get(k)}
                    fails.append(("resource-names", f"{attempt}: resources (got, expected) differ: {diff}"))
                import vkplugins.comps as _vc

                if not deep_same(_vc.A_DEFAULT_D, _vc.A_DEFAULT_D_PRISTINE):
                    fails.append(("defaults-modified", f"{attempt}: the hard-coded add_component() defaults were modified in place: {_vc.A_DEFAULT_D!r}"))
                    _vc.A_DEFAULT_D.clear()
                    _vc.A_DEFAULT_D.update(copy.deepcopy(_vc.A_DEFAULT_D_PRISTINE))
                if attempt == "first" and not deep_same(cfg, pristine):
                    fails.append(("config-modified", f"the configuration passed to start_component changed from {pristine!r} to {cfg!r}"))
            if len(res["samples"]) < 1 and case["config"]:
                res["samples"].append({"root": case["root"], "config": repr(case["config"]), "constructors": repr(exp_ctors)[:800]})
            if fails:
                res["violations"].append({"keys": sorted({f[0] for f in fails}), "fails": [list(f) for f in fails[:4]],
                                          "program": {"root": case["root"], "config": case["config"]}, "choices": [], "trace": [], "outcome": "done"})

    def replay(self, rec: dict) -> int:
        if "rebind" in rec.get("program", {}):
            s = self.rebind_unit(rec["program"])
            for v in s["violations"]:
                for f in v["fails"]:
                    print("FAIL", f[0], "-", f[1])
            print(f"VIOLATION property=C14 replay={rec.get('_path', '')}" if s["violations"] else "no violation on this tree")
            return 1 if s["violations"] else 0
        s_unit = {"cases": [rec["program"]]}
        from ..explore import Chooser, reset_determinism
        from ..vloop import Env

        env = Env(Chooser([]), 0)
        env.horizon = 10**9
        reset_determinism(0)
        self.run(env, s_unit)
        v = env.data["res"]["violations"]
        for x in v:
            for f in x["fails"]:
                print("FAIL", f[0], "-", f[1])
        if v:
            print(f"VIOLATION property=C14 replay={rec.get('_path', '')}")
            return 1
        print("no violation on this tree")
        return 0


CHECK = C14()
