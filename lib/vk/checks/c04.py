"""C04 - factory-generated resources are per-context singletons of the requesting context.

Two parts: (E2) BFS over histories of factory registration / lookups / child creation, and (E1) racing
lookups from concurrent tasks while an async factory is parked at a gate.
"""

from __future__ import annotations

from typing import Any

from ..bfs import APIS, CtxCheck
from ..ctxuniverse import KEYS, LOOKUPS, Universe


class _Race19(__import__("vk.checks.c19", fromlist=["Race"]).Race):
    id = "C04"


_R19 = _Race19()


class C04(CtxCheck):
    id = "C04"
    engine = "E2+E1"
    aspects = {"factory", "generated-scope"}
    max_ctx = 3
    assumptions = [
        "<= 3 contexts, factories of one and two types, sync and async",
        "racing part: <= 3 tasks, deviation bound 1 (quick) / 2 (thorough)",
        "behaviour of factories that raise is not specified by the statement and not explored",
    ]

    def rule(self, tier: str) -> str:
        return ("E2: BFS over histories of new/enter/leave/add_resource_factory/add_resource/lookups via six APIs, comparing factory "
                "body executions, returned object labels and get_resources with the model after every step; E1: racing lookups with the "
                "async factory parked at a gate, all completion orders; states = distinct canonical (model, impl) pairs + schedule states")

    def bounds(self, tier: str) -> dict:
        return {"depth_beyond_seed": self.depth(tier), "max_contexts": self.max_ctx, "race_deviation_bound": 1 if tier == "quick" else 2}

    def depth(self, tier: str) -> int:
        return 4 if tier == "quick" else 5

    def seeds(self, tier: str) -> list[list]:
        root = [("new", -1, False), ("enter", 0, False)]
        out = []
        for k, fk in (("Ad", "sync"), ("Ad", "async"), ("ABd", "sync"), ("BAd", "async"), ("ABx", "async"), ("Ad", "alambda"), ("ABd", "alambda"),
                      ("Ad", "annot"), ("BAd", "annot"), ("Ad", "uobj"), ("ABd", "auobj")):
            f = ("op", 0, ("addf", k, fk, f"f:c0:{k}", "m"))
            out.append(root + [f])
            out.append(root + [f, ("new", 0, False), ("enter", 1, False)])
            # a static resource that takes one of the factory's types
            out.append(root + [("op", 0, ("add", "Bd", False, "v:c0:Bd", "m")), f])
        return out

    def units(self, tier: str, seed: int) -> list:
        from .c04race import race_units

        from . import reent
        from .c19 import RACE as R19

        # race19: two/three tasks in their own child contexts call ONE injected coroutine function with two injected parameters
        # (the product handed to a call must be the one of the context the call was made in)
        return (super().units(tier, seed) + race_units(tier) + [{"dispatch_raises": api} for api in ("nowait", "async", "inject")]
                + reent.units(tier) + [{"race19": u} for u in R19.units(tier, seed)]
                + [{"explicit_parent": {"api": api, "fkind": fk, "leave": lv}} for api in ("s_nowait", "s_async", "inj_sync", "inj_async")
                   for fk in ("sync", "async") for lv in ("clean", "exc") if not (fk == "async" and api in ("s_nowait", "inj_sync"))])

    def explicit_parent_unit(self, unit: dict) -> dict:
        """root (holds the factory) > mid; inside mid a context with the EXPLICIT parent root is entered and left; a lookup made
        afterwards through the current context (shortcut / @inject) generates in mid - the requesting context - not in root."""
        import anyio

        from ..explore import new_summary

        p = unit["explicit_parent"]
        fails: list = []

        async def main() -> None:
            import asphalt.core as ac
            from asphalt.core import Context, inject, resource

            class T:
                pass

            made: list = []

            def sync_factory() -> Any:
                made.append(T())
                return made[-1]

            async def async_factory() -> Any:
                made.append(T())
                return made[-1]

            @inject
            def inj_sync(r: T = resource()) -> Any:
                return r

            @inject
            async def inj_async(r: T = resource()) -> Any:
                return r

            async with Context() as root:
                root.add_resource_factory(sync_factory if p["fkind"] == "sync" else async_factory, types=T)
                async with Context() as mid:
                    try:
                        async with Context(root):
                            if p["leave"] == "exc":
                                raise KeyError("leave")
                    except KeyError:
                        pass
                    if p["api"] == "s_nowait":
                        got = ac.get_resource_nowait(T)
                    elif p["api"] == "s_async":
                        got = await ac.get_resource(T)
                    elif p["api"] == "inj_sync":
                        got = inj_sync()
                    else:
                        got = await inj_async()
                    mine = await mid.get_resource(T)
                    if got is not mine or len(made) != 1:
                        fails.append(("generated-scope", f"a lookup made inside `mid` through {p['api']} after a Context(root) block had been left returned "
                                                         f"an object that `mid` does not hold (factory calls: {len(made)})"))
                    if root.get_resources(T):
                        fails.append(("generated-scope", f"the parent context holds a generated object after a lookup made in its child: {root.get_resources(T)!r}"))

        try:
            anyio.run(main)
        except BaseException as e:  # noqa: BLE001
            fails.append(("generated-scope", f"scenario raised {e!r}"))
        s = new_summary()
        s["evaluations"] = s["transitions"] = s["states"] = s["distinct"] = s["nontrivial"] = 1
        s["outcomes"] = {"done": 1}
        if fails:
            s["violations"].append({"keys": ["generated-scope"], "fails": [list(f) for f in fails], "program": dict(unit), "choices": [], "trace": [],
                                    "outcome": "done"})
            s["keyhist"] = {"generated-scope": 1}
        return s

    def work(self, unit: dict, tier: str) -> dict:
        if "explicit_parent" in unit:
            return self.explicit_parent_unit(unit)
        if "reent" in unit:
            from . import reent

            return reent.work(unit, None)
        if "race19" in unit:
            s = _R19.work(unit["race19"], tier)
            for v in s["violations"]:
                v["program"] = {"race19": v["program"]["race"]}
                v["keys"] = ["generated-scope" if k == "cross-talk" else k for k in v["keys"]]
            s["keyhist"] = {("generated-scope" if k == "cross-talk" else k): n for k, n in s.get("keyhist", {}).items()}
            return s
        if "dispatch_raises" in unit:
            return self.dispatch_raises_unit(unit)
        if "race" in unit:
            from .c04race import RACE

            return RACE.work(unit, tier)
        return super().work(unit, tier)

    def dispatch_raises_unit(self, unit: dict) -> dict:
        """The announcement of a first generation fails (a subscriber's queue is full and SignalQueueFull is escalated to an error):
        whatever the first lookup does, the factory still runs once for the context and later lookups return that product."""
        import warnings

        import anyio

        from ..explore import Chooser, new_summary, reset_determinism, run_main_asyncio
        from ..vloop import Env

        env = Env(Chooser([]), 0)
        reset_determinism(0)
        out: dict = {"calls": 0, "results": []}

        async def main() -> None:
            from asphalt.core import Context, SignalQueueFull, inject, resource

            class T:
                pass

            def factory() -> Any:
                out["calls"] += 1
                return T()

            @inject
            async def inj(r: T = resource()) -> Any:
                return r

            async def lookup(ctx: Any) -> Any:
                try:
                    if unit["dispatch_raises"] == "nowait":
                        return ctx.get_resource_nowait(T)
                    if unit["dispatch_raises"] == "async":
                        return await ctx.get_resource(T)
                    return await inj()
                except Warning as e:
                    return e

            async with Context() as ctx:
                ctx.add_resource_factory(factory, types=T)
                async with ctx.resource_added.stream_events(max_queue_size=1):
                    ctx.add_resource(1, "filler")  # fills the subscriber's only slot
                    with warnings.catch_warnings():
                        warnings.simplefilter("error", SignalQueueFull)
                        out["results"].append(await lookup(ctx))
                    out["results"].append(await lookup(ctx))
                    out["results"].append(await lookup(ctx))

        run_main_asyncio(env, main)
        s = new_summary()
        s["evaluations"] = s["transitions"] = s["states"] = s["distinct"] = s["nontrivial"] = 1
        s["outcomes"] = {"done": 1}
        objs = [r for r in out["results"] if not isinstance(r, Warning)]
        fails = []
        if out["calls"] != 1:
            fails.append(["factory", f"the factory ran {out['calls']} times for one context although only the announcement of the first generation failed"])
        if len({id(o) for o in objs}) > 1:
            fails.append(["factory", "later lookups returned different objects"])
        if fails:
            s["violations"].append({"keys": ["factory"], "fails": fails, "program": dict(unit), "choices": [], "trace": [], "outcome": "done"})
            s["keyhist"] = {"factory": 1}
        return s

    def replay(self, rec: dict) -> Any:
        if "explicit_parent" in rec.get("program", {}):
            s = self.explicit_parent_unit(rec["program"])
            for v in s["violations"]:
                for f in v["fails"]:
                    print("FAIL", f[0], "-", f[1])
            print(f"VIOLATION property=C04 replay={rec.get('_path', '')}" if s["violations"] else "no violation on this tree")
            return 1 if s["violations"] else 0
        if "reent" in rec.get("program", {}):
            from . import reent

            return reent.replay(rec, self.id, None)
        if "race19" in rec.get("program", {}):
            return _R19.replay(dict(rec, program=rec["program"]["race19"]))
        if "dispatch_raises" in rec.get("program", {}):
            s = self.dispatch_raises_unit(rec["program"])
            for v in s["violations"]:
                for f in v["fails"]:
                    print("FAIL", f[0], "-", f[1])
            print(f"VIOLATION property=C04 replay={rec.get('_path', '')}" if s["violations"] else "no violation on this tree")
            return 1 if s["violations"] else 0
        if "race" in rec.get("program", {}):
            from .c04race import RACE

            return RACE.replay(rec)
        return super().replay(rec)

    def enabled(self, u: Universe) -> list[tuple]:
        ops: list[tuple] = []
        n = len(u.models)
        if n < self.max_ctx:
            for m in u.models:
                if m.state == "open":
                    ops.append(("new", m.idx, False))
        for m in u.models:
            if m.state == "inactive":
                ops.append(("enter", m.idx, False))
            elif m.state == "open":
                if not any(c.parent is m and c.state in ("open", "closing") for c in u.models):
                    ops.append(("leave", m.idx, "clean"))
                for k in ("Ad", "Bd"):
                    types, name = KEYS[k]
                    if all((t, name) not in m.res for t in types):
                        ops.append(("op", m.idx, ("add", k, False, f"v:c{m.idx}:{k}", "m")))
                for k, fk in (("Ad", "sync"), ("BAd", "async"), ("Ax", "async")):
                    types, name = KEYS[k]
                    if all((t, name) not in m.fac for t in types):
                        ops.append(("op", m.idx, ("addf", k, fk, f"f:c{m.idx}:{k}", "m")))
                for tname, name in LOOKUPS:
                    if (tname, name) not in m.res and (tname, name) in m.fac:
                        f = m.fac[(tname, name)]
                        for api in APIS:
                            if f["async"] and api in ("nowait", "s_nowait", "inj_sync"):
                                continue
                            ops.append(("op", m.idx, ("get", api, tname, name, False)))
        return ops


CHECK = C04()
