"""C04 - factory-generated resources are per-context singletons of the requesting context.

Two parts: (E2) BFS over histories of factory registration / lookups / child creation, and (E1) racing
lookups from concurrent tasks while an async factory is parked at a gate.
"""

from __future__ import annotations

from typing import Any

from ..bfs import APIS, CtxCheck
from ..ctxuniverse import KEYS, LOOKUPS, Universe


class C04(CtxCheck):
    id = "C04"
    engine = "E2+E1"
    aspects = {"factory", "generated-scope"}
    max_ctx = 3
    assumptions = [
        "<= 3 contexts, factories of one and two types, sync and async",
        "racing part: <= 3 tasks, deviation bound 1 (quick) / 2 (thorough)",
        "behaviour of factories that raise is not specified by the statement and not explored",
    ]

    def rule(self, tier: str) -> str:
        return ("E2: BFS over histories of new/enter/leave/add_resource_factory/add_resource/lookups via six APIs, comparing factory "
                "body executions, returned object labels and get_resources with the model after every step; E1: racing lookups with the "
                "async factory parked at a gate, all completion orders; states = distinct canonical (model, impl) pairs + schedule states")

    def bounds(self, tier: str) -> dict:
        return {"depth_beyond_seed": self.depth(tier), "max_contexts": self.max_ctx, "race_deviation_bound": 1 if tier == "quick" else 2}

    def depth(self, tier: str) -> int:
        return 4 if tier == "quick" else 5

    def seeds(self, tier: str) -> list[list]:
        root = [("new", -1, False), ("enter", 0, False)]
        out = []
        for k, fk in (("Ad", "sync"), ("Ad", "async"), ("ABd", "sync"), ("BAd", "async"), ("ABx", "async"), ("Ad", "alambda"), ("ABd", "alambda")):
            f = ("op", 0, ("addf", k, fk, f"f:c0:{k}", "m"))
            out.append(root + [f])
            out.append(root + [f, ("new", 0, False), ("enter", 1, False)])
            # a static resource that takes one of the factory's types
            out.append(root + [("op", 0, ("add", "Bd", False, "v:c0:Bd", "m")), f])
        return out

    def units(self, tier: str, seed: int) -> list:
        from .c04race import race_units

        return super().units(tier, seed) + race_units(tier)

    def work(self, unit: dict, tier: str) -> dict:
        if "race" in unit:
            from .c04race import RACE

            return RACE.work(unit, tier)
        return super().work(unit, tier)

    def replay(self, rec: dict) -> Any:
        if "race" in rec.get("program", {}):
            from .c04race import RACE

            return RACE.replay(rec)
        return super().replay(rec)

    def enabled(self, u: Universe) -> list[tuple]:
        ops: list[tuple] = []
        n = len(u.models)
        if n < self.max_ctx:
            for m in u.models:
                if m.state == "open":
                    ops.append(("new", m.idx, False))
        for m in u.models:
            if m.state == "inactive":
                ops.append(("enter", m.idx, False))
            elif m.state == "open":
                if not any(c.parent is m and c.state in ("open", "closing") for c in u.models):
                    ops.append(("leave", m.idx, "clean"))
                for k in ("Ad", "Bd"):
                    types, name = KEYS[k]
                    if all((t, name) not in m.res for t in types):
                        ops.append(("op", m.idx, ("add", k, False, f"v:c{m.idx}:{k}", "m")))
                for k, fk in (("Ad", "sync"), ("BAd", "async"), ("Ax", "async")):
                    types, name = KEYS[k]
                    if all((t, name) not in m.fac for t in types):
                        ops.append(("op", m.idx, ("addf", k, fk, f"f:c{m.idx}:{k}", "m")))
                for tname, name in LOOKUPS:
                    if (tname, name) not in m.res and (tname, name) in m.fac:
                        f = m.fac[(tname, name)]
                        for api in APIS:
                            if f["async"] and api in ("nowait", "s_nowait", "inj_sync"):
                                continue
                            ops.append(("op", m.idx, ("get", api, tname, name, False)))
        return ops


CHECK = C04()
