"""C07 - a failing or stalling component aborts start-up cleanly with a precise error (engine E1, fault enumeration)."""

from __future__ import annotations

import copy
from typing import Any

from ..comptree import CompFail, CompFail2, Tree, paths
from ..explore import E1Check
from .c05 import QUICK_SHAPES, SHAPES

PHASE_NAME = {"ctor": "creating", "prepare": "preparing", "start": "starting"}


def ancestors(path: str) -> list[str]:
    out = []
    while path:
        path = path.rsplit(".", 1)[0] if "." in path else ""
        out.append(path)
    return out


def build(shape: str, fault: dict | None, absent: str = "") -> dict:
    spec = copy.deepcopy(SHAPES[shape])
    for p, nd in paths(spec):
        for phase in ("prepare", "start"):
            if absent == "noprep" and phase == "prepare" and not (fault and fault["path"] == p and fault["phase"] == phase):
                nd[phase] = None
                continue
            # (the second callback of prepare() returns an awaitable object that is not a coroutine)
            steps: list = [("td", f"td:{p}:{phase}"), ("gate", "g"), ("td" if phase == "start" else "tdaw", f"td2:{p}:{phase}")]
            if fault and fault["path"] == p and fault["phase"] == phase:
                steps.insert(1 if fault["pos"] == "before" else 2,
                             ("bad-factory",) if fault["cls"] == "K" else ("nested-tree", True) if fault["cls"] == "N" else ("fail", fault["cls"]))
            elif fault and fault.get("handshake") and p != fault["path"] and not nd.get("children") and phase == "start" and p not in ancestors(fault["path"]):
                # another component is suspended in start_service_task()'s handshake when the failure strikes
                steps.insert(1, ("svc-hs", f"hs:{p}"))
            nd[phase] = steps
        if fault and fault["path"] == p and fault["phase"] == "ctor":
            nd["ctor_fail"] = fault["cls"]
        if fault and fault.get("gen") and not (fault["path"] == p and fault["phase"] == "ctor"):
            nd["gen_start"] = True  # start() is a @context_teardown generator: its teardown part is registered when start() has finished
        if fault and fault.get("byref") and (fault["path"] == p or p in ancestors(fault["path"])):
            nd["byref"] = True  # declared by a "module:attr" reference, as in a configuration file
    return spec


class C07(E1Check):
    id = "C07"
    level = "model_checking"
    assumptions = [
        "exactly one fault per execution: either one component raises an Exception in one phase, or the start-up watchdog's timer fires",
        "trees of <= 4 (quick) / <= 5 (thorough) components, each phase with one gate; the failure position is before or after the gate",
        "in the zone where start-up needs no further environment event when the timer fires, both TimeoutError and a normal return are accepted",
    ]

    def rule(self, tier: str) -> str:
        return ("program = tree shape x (failing component, phase, position, exception class) or a time-out program; executions = all gate "
                "completion orders of the other components (+ timer offered at every quiescent point; preemptively at every loop iteration "
                "within the deviation bound); non-trivial = >= 2 environment events or an injection; distinct = distinct traces")

    def bounds(self, tier: str) -> dict:
        return {"shapes": QUICK_SHAPES if tier == "quick" else list(SHAPES), "deviation_bound": {"fault": 0 if tier == "quick" else "1 for <= 3 components", "timeout": 1 if tier == "quick" else "2 for <= 3 components, else 1"}}

    def units(self, tier: str, seed: int) -> list:
        progs = []
        shapes = QUICK_SHAPES if tier == "quick" else list(SHAPES)
        for shape in shapes:
            for p, nd in paths(SHAPES[shape]):
                for phase in ("ctor", "prepare", "start"):
                    for pos in (("before",) if phase == "ctor" else ("before", "after")):
                        for cls in ("E", "E2", "K", "E+hs", "G", "T"):
                            if cls in ("K", "G", "T") and phase == "ctor":
                                continue
                            if cls in ("G", "T") and pos == "after" and tier == "quick":
                                continue
                            for absent in ("", "noprep"):
                                for timeout in ((5,) if tier == "quick" else (5, None)):
                                    if phase == "ctor" and (absent or timeout is None):
                                        continue
                                    if cls == "E+hs" and (absent or len(paths(SHAPES[shape])) < 2):
                                        continue
                                    progs.append({"kind": "fault", "shape": shape, "absent": absent, "timeout": timeout,
                                                  "fault": {"path": p, "phase": phase, "pos": pos, "cls": cls.split("+")[0], "handshake": cls.endswith("+hs")}})
                                    if cls == "E" and not absent and timeout == 5 and phase == "start":
                                        # every start() is a @context_teardown generator
                                        progs.append({"kind": "fault", "shape": shape, "absent": absent, "timeout": timeout,
                                                      "fault": {"path": p, "phase": phase, "pos": pos, "cls": "E", "handshake": False, "gen": True}})
                                    if cls == "E" and not absent and timeout == 5 and pos == "before":
                                        # the failing component (and its ancestors) declared by reference strings instead of classes
                                        progs.append({"kind": "fault", "shape": shape, "absent": absent, "timeout": timeout,
                                                      "fault": {"path": p, "phase": phase, "pos": pos, "cls": "E", "handshake": False, "byref": True}})
                                        # the same with start_component() called in a context nested in two others
                                        progs.append({"kind": "fault", "shape": shape, "absent": absent, "timeout": timeout, "nested": True,
                                                      "fault": {"path": p, "phase": phase, "pos": pos, "cls": "E", "handshake": False}})
            ps_ = paths(SHAPES[shape])
            leaves_ = [p for p, nd in ps_ if not nd.get("children") and p != ""]
            if len(leaves_) >= 2:
                for extra in ("in-factory", "svc-none", "fac-hs"):
                    for pos in ("before", "after"):
                        # the last leaf fails while the first leaf is suspended inside an async resource factory / after the first leaf
                        # started a self-ending service task (teardown_action=None) behind a resource teardown
                        progs.append({"kind": "fault", "shape": shape, "absent": "", "timeout": 5, "extra": extra,
                                      "fault": {"path": leaves_[-1], "phase": "start", "pos": pos, "cls": "E", "handshake": False}})
            for p, nd in ps_:
                for phase in ("prepare", "start"):
                    # a component starts a sub-tree from inside its own method and that sub-tree fails: the error of THIS tree names
                    # this component and this phase, its cause is the error of the sub-tree
                    progs.append({"kind": "fault", "shape": shape, "absent": "", "timeout": 5, "nested_tree": True,
                                  "fault": {"path": p, "phase": phase, "pos": "after", "cls": "N", "handshake": False}})
            for absent in ("", "noprep"):
                progs.append({"kind": "timeout", "shape": shape, "absent": absent, "timeout": 5})
            # the time-out strikes while a component is suspended in `await agen.aclose()` / in a task factory's start-up handshake
            for stall in ("stall-aclose", "fac-hs"):
                progs.append({"kind": "timeout", "shape": shape, "absent": "", "timeout": 5, "stall": stall})
            if len(paths(SHAPES[shape])) >= 3:
                # one component fails inside a lookup (the shared async factory raises) while siblings wait for the same resource
                for timeout in (5, None):
                    progs.append({"kind": "flaky-shared", "shape": shape, "absent": "", "timeout": timeout})
            progs.append({"kind": "timeout", "shape": shape, "absent": "", "timeout": 0})
            progs.append({"kind": "timeout", "shape": shape, "absent": "", "timeout": None})
        return progs

    def bound(self, tier: str, program: Any) -> int:
        n = len(paths(SHAPES[program["shape"]]))
        if program["kind"] == "timeout":
            return 1 if tier == "quick" else (2 if n <= 3 else 1)
        # thorough: one preemptive injection for trees of <= 3 components, all gate orders for the larger ones
        return 0 if tier == "quick" else (1 if n <= 3 else 0)

    def max_execs(self, tier: str, program: Any) -> int:
        return 6000 if tier == "quick" else 30000

    def hash_modes(self, tier: str, program: Any) -> tuple:
        # thorough: both iteration orders of the task sets that anyio walks when it delivers a cancellation
        return (0,) if tier == "quick" else (0, 1)

    async def main(self, env: Any, program: dict) -> None:
        from asphalt.core import ComponentStartError, Context, start_component

        spec = build(program["shape"], program.get("fault"), program["absent"])
        if program["kind"] == "flaky-shared":
            ps = paths(spec)
            ps[0][1]["prepare"].insert(1, ("addf", "RA", "shared", "shared", "aflaky"))
            for p, nd in ps[1:]:
                if not nd.get("children"):
                    nd["start"].insert(1, ("get", "RA", "shared", "shortcut", False, f"{p}:start"))
        if program.get("stall"):
            last = paths(spec)[-1]
            last[1]["start"].insert(1, ("stall-aclose",) if program["stall"] == "stall-aclose" else ("fac-hs", f"fh:{last[0]}"))
        if program.get("extra"):
            ps = paths(spec)
            first_leaf = next((p, nd) for p, nd in ps if not nd.get("children") and p != "" and p != program["fault"]["path"])
            if program["extra"] == "in-factory":
                ps[0][1]["prepare"].insert(1, ("addf", "RA", "slowf", "slowf", "agated"))
                first_leaf[1]["start"].insert(1, ("get", "RA", "slowf", "shortcut", False, f"{first_leaf[0]}:start"))
            elif program["extra"] == "fac-hs":
                # suspended in TaskFactory.start_task() (start-up handshake of a factory task) when the sibling fails
                first_leaf[1]["start"].insert(1, ("fac-hs", f"fh:{first_leaf[0]}"))
            else:
                first_leaf[1]["start"].insert(1, ("svc-none", f"sn:{first_leaf[0]}"))
        tree = Tree(env, spec)
        env.data["tree"] = tree
        env.data["spec"] = spec
        st = env.data["st"] = {}
        # one fault per execution: in component-failure programs the watchdog's timer is never offered
        env.offer_timers = program["kind"] == "timeout"
        env.inject_filter = (lambda o: o[0] == "timer") if program["kind"] == "timeout" else None
        outer_marks: list = []
        qpoints = env.data["qpoints"] = []
        env.quiescent_hooks.append(lambda: qpoints.append(len(env.trace)))
        from contextlib import AsyncExitStack

        async with AsyncExitStack() as stack:
            if program.get("nested"):
                # two enclosing contexts: what the tree registers belongs to the innermost (surrounding) one only
                o1 = await stack.enter_async_context(Context())
                o1.add_teardown_callback(lambda: env.log("outer-td", 1))
                o2 = await stack.enter_async_context(Context())
                o2.add_teardown_callback(lambda: env.log("outer-td", 2))
            ctx = Context()
            await self._body(env, program, tree, st, ctx)
        env.log("all-left")

    async def _body(self, env: Any, program: dict, tree: Any, st: dict, ctx0: Any) -> None:
        from asphalt.core import start_component

        async with ctx0 as ctx:
            try:
                inst = await start_component(tree.type_decl(tree.spec, tree.root_class), {}, timeout=program["timeout"])
                st["returned"] = inst
                env.log("returned", inst is tree.instances.get(""))
            except BaseException as e:  # noqa: BLE001
                st["exc"] = e
                env.log("raised", type(e).__name__)
            if program.get("extra") == "in-factory":
                # the factory was registered before the failure and stays usable: a lookup made now completes
                from ..comptree import RA, lab

                r = await ctx.get_resource(RA, "slowf")
                env.log("post-lookup", lab(r))
            # give anything that is still alive the chance to show itself
            await env.gate("after")
            env.log("leaving")
        env.log("ctx-left")

    def verdict(self, env: Any, program: Any, outcome: str) -> None:
        super().verdict(env, program, outcome)
        from asphalt.core import ComponentStartError

        tr = env.trace
        fail = env.fail
        st = env.data.get("st", {})
        tree = env.data.get("tree")
        spec = env.data.get("spec")
        if tree is None or outcome != "done":
            return
        end_idx = next((i for i, ev in enumerate(tr) if ev[0] in ("raised", "returned")), None)
        if end_idx is None:
            fail("no-outcome", "start_component neither returned nor raised")
            return
        comp_events = ("ctor", "phase+", "phase-", "phase!", "passed", "td-reg", "failing", "svc+", "svc-up", "svc-started")
        late = [ev for ev in tr[end_idx + 1:] if ev[0] in comp_events]
        if late:
            fail("still-running", f"component events after start_component had {tr[end_idx][0]}: {late[:4]}")
        if program["kind"] == "flaky-shared":
            exc = st.get("exc")
            failed = [ev[1] for ev in tr if ev[0] == "get!" and ev[2] == "FlakyError"]
            if not isinstance(exc, ComponentStartError):
                fail("wrong-error", f"one component failed in its lookup (the shared factory raised) but start_component raised {exc!r}")
            elif len(failed) != 1 or exc.path != failed[0].split(":")[0] or exc.phase != "starting" or type(exc.__cause__).__name__ != "FlakyError":
                fail("wrong-error", f"components that saw the factory's failure: {failed}; ComponentStartError names {exc.phase!r} {exc.path!r} with cause {exc.__cause__!r}")
        if program["kind"] == "fault":
            f = program["fault"]
            exc = st.get("exc")
            if exc is None:
                fail("no-error", "a component failed but start_component returned normally")
            elif not isinstance(exc, ComponentStartError):
                fail("wrong-error", f"start_component raised {exc!r} instead of ComponentStartError")
            else:
                if exc.phase != PHASE_NAME[f["phase"]] or exc.path != f["path"]:
                    fail("wrong-error", f"ComponentStartError names phase {exc.phase!r} path {exc.path!r}, the fault was {PHASE_NAME[f['phase']]!r} at {f['path']!r}")
                inst_cls = type(tree.instances[f["path"]]) if f["path"] in tree.instances else None
                if f["phase"] != "ctor" and exc.component_type is not inst_cls:
                    fail("wrong-error", f"ComponentStartError.component_type is {exc.component_type!r}, expected {inst_cls!r}")
                if f["phase"] == "ctor" and getattr(exc.component_type, "_vpath", None) != f["path"]:
                    fail("wrong-error", f"ComponentStartError.component_type is {exc.component_type!r} for a failure creating {f['path']!r}")
                cause = exc.__cause__
                want = {"E": CompFail, "K": KeyError, "G": ExceptionGroup, "T": TimeoutError}.get(f["cls"], CompFail2)
                if f["cls"] == "N":
                    # what the component's method raised is the ComponentStartError of the sub-tree it started
                    inner = getattr(tree, "inner_classes", {}).get(f["path"])
                    if not isinstance(cause, ComponentStartError) or cause.phase != "preparing" or cause.path != "leaf" or \
                            inner is None or cause.component_type is not inner[1] or not tree.raised or cause.__cause__ is not tree.raised[0]:
                        fail("wrong-cause", f"__cause__ is {cause!r} (cause {getattr(cause, '__cause__', None)!r}); the component's method raised the "
                                            f"ComponentStartError('preparing', 'leaf') of the sub-tree it started")
                elif type(cause) is not want or not tree.raised or cause is not tree.raised[0]:
                    fail("wrong-cause", f"__cause__ is {cause!r}, the component raised {want.__name__}")
            # siblings still starting are stopped: nothing has to complete before start_component raises - it has raised by the
            # first quiescent point after the failure
            fi = next((i for i, ev in enumerate(tr) if ev[0] == "failing"), None)
            if fi is not None:
                q = next((x for x in env.data["qpoints"] if x > fi), None)
                if q is not None and end_idx >= q:
                    fail("not-stopped", f"the failure happened at trace index {fi} but start_component had not raised at the next quiescent point "
                                        f"(it raised at {end_idx}, after {[ev for ev in tr[q:end_idx] if ev[0] == 'env'][:3]})")
            for a in ancestors(f["path"]):
                if any(ev[0] == "phase+" and ev[1] == a and ev[2] == "start" for ev in tr):
                    fail("ancestor-started", f"start() of ancestor {a!r} ran although {f['path']!r} failed")
            if f["phase"] == "ctor" and any(ev[0] in ("phase+",) for ev in tr):
                fail("ancestor-started", "a prepare()/start() ran although a constructor failed")
            # everything that was inside a phase saw the cancellation (or the failure) before the raise
            open_ph = set()
            for ev in tr[:end_idx]:
                if ev[0] == "phase+":
                    open_ph.add((ev[1], ev[2]))
                elif ev[0] in ("phase-", "phase!"):
                    open_ph.discard((ev[1], ev[2]))
            if open_ph:
                fail("still-running", f"phases {sorted(open_ph)} were neither finished nor stopped when start_component raised")
        elif program["kind"] == "timeout":
            timer_idx = next((i for i, ev in enumerate(tr) if ev[:2] == ("env", "timer")), None)
            n_gates = sum(1 for p, nd in paths(spec) for ph in ("prepare", "start") if nd.get(ph) is not None)
            exc = st.get("exc")
            if exc is not None and not isinstance(exc, TimeoutError):
                fail("wrong-error", f"time-out program raised {exc!r}")
            if not program["timeout"]:
                if timer_idx is not None or exc is not None:
                    fail("timeout-misfire", f"timeout={program['timeout']!r} but timer={timer_idx} exc={exc!r}")
            elif timer_idx is None or timer_idx > end_idx:
                if exc is not None:
                    fail("timeout-misfire", f"the timer never fired before the end of start-up but start_component raised {exc!r}")
                if timer_idx is not None:
                    fail("timeout-misfire", "the watchdog's timer was still pending after start_component had returned")
            else:
                released = sum(1 for ev in tr[:timer_idx] if ev[:2] == ("env", "gate") and ev[2] != "after")
                if released < n_gates and exc is not None:
                    q = next((x for x in env.data["qpoints"] if x > timer_idx), None)
                    if q is not None and end_idx >= q:
                        fail("not-stopped", f"the time-out struck at trace index {timer_idx} but start_component had not raised at the next quiescent point")
                if released < n_gates and exc is None:
                    fail("timeout-ignored", f"the timer fired while start-up still needed {n_gates - released} completion(s) but start_component returned normally")
            if exc is not None:
                open_ph = set()
                for ev in tr[:end_idx]:
                    if ev[0] == "phase+":
                        open_ph.add((ev[1], ev[2]))
                    elif ev[0] in ("phase-", "phase!"):
                        open_ph.discard((ev[1], ev[2]))
                if open_ph:
                    fail("still-running", f"phases {sorted(open_ph)} were neither finished nor stopped when TimeoutError was raised")
        if program.get("extra") == "svc-none":
            for ev in tr:
                if ev[0] == "svc-started":
                    lbl = ev[1]
                    pth = lbl.split(":", 1)[1]
                    se = next((i for i, e2 in enumerate(tr) if e2[0] == "svc-" and e2[1] == lbl), None)
                    t0 = next((i for i, e2 in enumerate(tr) if e2 == ("td", f"td:{pth}:start")), None)
                    if se is None or t0 is None or t0 < se:
                        fail("ownership", f"teardown callback td:{pth}:start (registered before service task {lbl} was started) ran at {t0}, the task ended at {se}")
                    if any(e2[0] == "svc!" and e2[1] == lbl for e2 in tr):
                        fail("ownership", f"service task {lbl} (teardown_action=None) was cancelled instead of awaited")
        if program.get("extra") == "in-factory" and not any(ev[0] == "post-lookup" and str(ev[1]).startswith("slowf#") for ev in tr):
            fail("ownership", f"a lookup of the factory registered before the failure gave {[ev for ev in tr if ev[0] == 'post-lookup']}")
        if program.get("nested") and ("ctx-left",) in tr:
            ci = tr.index(("ctx-left",))
            late_td = [ev for ev in tr[ci + 1:] if ev[0] == "td"]
            if late_td:
                fail("ownership", f"teardown callbacks of the component tree ran only after an enclosing context was left: {late_td[:3]}")
            if any(ev[0] == "outer-td" for ev in tr[:ci]):
                fail("ownership", "an enclosing context was torn down before the surrounding one")
        # ownership: what was registered before the failure is torn down in reverse order at context exit
        if ("leaving",) in tr:
            li = tr.index(("leaving",))
            regs = [ev[1] for ev in tr[:li] if ev[0] == "td-reg"]
            early = [ev[1] for ev in tr[:li] if ev[0] == "td"]
            tds = [ev[1] for ev in tr if ev[0] == "td"]
            if early:
                fail("ownership", f"teardown callbacks {early} ran before the surrounding context was left")
            if tds != list(reversed(regs)):
                fail("ownership", f"teardown callbacks ran {tds}, registered {regs}")


CHECK = C07()
