"""C02 - resources are scoped to the context tree: snapshot down, nothing up or sideways (engine E2)."""

from __future__ import annotations

from ..bfs import APIS, CtxCheck
from ..ctxuniverse import KEYS, LOOKUPS, Universe


def count(u: Universe, pred) -> int:
    return sum(1 for op in u.hist if pred(op))


def label(u: Universe, prefix: str, idx: int, key: str) -> str:
    n = count(u, lambda op: op[0] == "op" and op[1] == idx and op[2][0] in ("add", "addf", "bad") and (op[2][1] == key))
    return f"{prefix}:c{idx}:{key}:{n}"


class C02(CtxCheck):
    id = "C02"
    aspects = {"visible"}
    max_ctx = 4
    assumptions = [
        "<= 4 contexts (<= 2 roots), types A/B, names default/x, multi-type registration (A,B)",
        "histories run on the default schedule (no concurrency inside a history); concurrency is C04/C06's subject",
        "the model's snapshot is taken at construction of the child context",
    ]

    def rule(self, tier: str) -> str:
        return ("BFS over histories of new/enter/leave/add_resource/add_resource_factory/generating lookups; after every step all "
                "six lookup APIs are asked for every (type, name) in every open context and get_resources for every context; "
                "states are distinct canonical (model, implementation) pairs; all are non-trivial (each has >= 1 context)")

    def bounds(self, tier: str) -> dict:
        return {"depth_beyond_seed": self.depth(tier), "max_contexts": self.max_ctx, "keys": list(KEYS), "lookup_apis": list(APIS)}

    def depth(self, tier: str) -> int:
        return 4 if tier == "quick" else 5

    def seeds(self, tier: str) -> list[list]:
        # every shape of two/three contexts is reachable by BFS; seeds only fan the work out over the pool
        root = [("new", -1, False), ("enter", 0, False)]
        out = []
        for first in self.adds(0, ("Ad", "ABd", "Ax")) + self.addfs(0) + [None]:
            for child in (("new", 0, False), ("new", 0, True), ("new", -1, False)):
                h = list(root)
                if first is not None:
                    h.append(first)
                h.append(child)
                out.append(h)
        return out

    def adds(self, idx: int, keys=("Ad", "Bd", "Ax", "ABd")) -> list[tuple]:
        return [("op", idx, ("add", k, False, f"v:c{idx}:{k}", "m")) for k in keys]

    def addfs(self, idx: int) -> list[tuple]:
        return [("op", idx, ("addf", "Ad", "sync", f"f:c{idx}:Ad", "m")),
                ("op", idx, ("addf", "BAd", "async", f"f:c{idx}:BAd", "m"))]

    def enabled(self, u: Universe) -> list[tuple]:
        ops: list[tuple] = []
        n = len(u.models)
        roots = sum(1 for m in u.models if m.parent is None)
        if n < self.max_ctx:
            for m in u.models:
                if m.state == "open":
                    ops.append(("new", m.idx, False))
                    ops.append(("new", m.idx, True))
            if roots < 2:
                ops.append(("new", -1, False))
        for m in u.models:
            if m.state == "inactive":
                ops.append(("enter", m.idx, False))
            elif m.state == "open":
                if not any(c.parent is m and c.state in ("open", "closing") for c in u.models):
                    ops.append(("leave", m.idx, "clean"))
                for k in ("Ad", "Bd", "Ax", "ABd"):
                    types, name = KEYS[k]
                    if all((t, name) not in m.res for t in types):
                        ops.append(("op", m.idx, ("add", k, False, f"v:c{m.idx}:{k}", "s" if k == "Bd" else "m")))
                for k, fk in (("Ad", "sync"), ("BAd", "async"), ("Ax", "sync")):
                    types, name = KEYS[k]
                    if all((t, name) not in m.fac for t in types):
                        ops.append(("op", m.idx, ("addf", k, fk, f"f:c{m.idx}:{k}", "s" if k == "Ax" else "m")))
                for tname, name in LOOKUPS:
                    if (tname, name) not in m.res and (tname, name) in m.fac:
                        f = m.fac[(tname, name)]
                        for api in APIS:
                            if f["async"] and api in ("nowait", "s_nowait", "inj_sync"):
                                continue
                            ops.append(("op", m.idx, ("get", api, tname, name, False)))
        return ops


CHECK = C02()
