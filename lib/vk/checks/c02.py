"""C02 - resources are scoped to the context tree: snapshot down, nothing up or sideways (engine E2)."""

from __future__ import annotations

from typing import Any

from ..bfs import APIS, CtxCheck
from ..ctxuniverse import KEYS, LOOKUPS, Universe


def count(u: Universe, pred) -> int:
    return sum(1 for op in u.hist if pred(op))


def label(u: Universe, prefix: str, idx: int, key: str) -> str:
    n = count(u, lambda op: op[0] == "op" and op[1] == idx and op[2][0] in ("add", "addf", "bad") and (op[2][1] == key))
    return f"{prefix}:c{idx}:{key}:{n}"


class _Race19(__import__("vk.checks.c19", fromlist=["Race"]).Race):
    id = "C02"


_R19 = _Race19()


class C02(CtxCheck):
    id = "C02"
    aspects = {"visible", "generated-scope"}
    max_ctx = 4
    assumptions = [
        "<= 4 contexts (<= 2 roots), types A/B, names default/x, multi-type registration (A,B)",
        "histories run on the default schedule (no concurrency inside a history); concurrency is C04/C06's subject",
        "the model's snapshot is taken at construction of the child context",
    ]

    def rule(self, tier: str) -> str:
        return ("BFS over histories of new/enter/leave/add_resource/add_resource_factory/generating lookups; after every step all "
                "six lookup APIs are asked for every (type, name) in every open context and get_resources for every context; "
                "states are distinct canonical (model, implementation) pairs; all are non-trivial (each has >= 1 context)")

    def bounds(self, tier: str) -> dict:
        return {"depth_beyond_seed": self.depth(tier), "max_contexts": self.max_ctx, "keys": list(KEYS), "lookup_apis": list(APIS)}

    def depth(self, tier: str) -> int:
        return 4 if tier == "quick" else 5

    def seeds(self, tier: str) -> list[list]:
        # every shape of two/three contexts is reachable by BFS; seeds only fan the work out over the pool
        root = [("new", -1, False), ("enter", 0, False)]
        out = []
        for first in self.adds(0, ("Ad", "ABd", "Ax")) + self.addfs(0) + [None]:
            for child in (("new", 0, False), ("new", 0, True), ("new", -1, False)):
                h = list(root)
                if first is not None:
                    h.append(first)
                h.append(child)
                out.append(h)
        return out

    # ---- component family: contexts created from inside prepare()/start() of a starting component -----------
    def _units0(self, tier: str, seed: int) -> list:
        comp = [{"comp": {"where": w, "nest": n, "order": o}} for w in ("root.prepare", "a.prepare", "a.start", "root.start", "g.start")
                for n in (False, True) for o in ("ag", "ga")]
        comp += [{"comp": {"same_task": True, "bparent": bp, "leave": lv, "depth": d}} for bp in ("root", "a", "mid") for lv in ("clean", "exc")
                 for d in (2, 3) if not (bp == "mid" and d == 2)]
        return super().units(tier, seed) + comp

    def _work0(self, unit: dict, tier: str) -> dict:
        if "comp" not in unit:
            return super().work(unit, tier)
        from ..explore import Chooser, new_summary, reset_determinism, run_main_asyncio
        from ..vloop import Env

        env = Env(Chooser([]), 0)
        reset_determinism(0)
        s = new_summary()
        run_main_asyncio(env, self.comp_main, env, unit["comp"])
        s["evaluations"] = s["transitions"] = s["states"] = s["distinct"] = s["nontrivial"] = 1
        s["outcomes"] = {"done": 1}
        if env.fails:
            s["violations"].append({"keys": sorted({f[0] for f in env.fails}), "fails": [list(f) for f in env.fails[:5]], "program": unit,
                                    "choices": [], "trace": [], "outcome": "done"})
            s["keyhist"] = {"visible": 1}
        return s

    def _replay0(self, rec: dict) -> Any:
        if "comp" in rec.get("program", {}):
            s = self.work(rec["program"], "quick")
            for v in s["violations"]:
                for f in v["fails"]:
                    print("FAIL", f[0], "-", f[1])
            if s["violations"]:
                print(f"VIOLATION property=C02 replay={rec.get('_path', '')}")
                return 1
            print("no violation on this tree")
            return 0
        return super().replay(rec)

    async def same_task_main(self, env: Any, p: dict) -> None:
        """Contexts nested in ONE task, one of them created with an explicit parent that is not the current context: after it has
        been left, the shortcuts and @inject must again work on the context that was current before (what is added there must not
        land in, or be looked up from, the parent)."""
        import asphalt.core as ac
        from asphalt.core import Context

        from ..ctxuniverse import A, injected

        labels: dict[int, str] = {}

        def mk(label: str) -> Any:
            v = A(label)
            labels[id(v)] = label
            return v

        def vis(ctx: Any) -> dict:
            return {n: labels.get(id(v)) for n, v in ctx.get_resources(A).items()}

        async with Context() as root:
            root.add_resource(mk("r"), "r")
            async with Context() as mid:
                mid.add_resource(mk("m"), "m")
                cur_ctx = mid
                stack = [root, mid]
                if p["depth"] == 3:
                    inner = Context()
                    await inner.__aenter__()
                    inner.add_resource(mk("i"), "i")
                    stack.append(inner)
                    cur_ctx = inner
                try:
                    bparent = {"root": root, "a": cur_ctx, "mid": mid}[p["bparent"]]
                    b = Context(bparent)
                    try:
                        async with b:
                            ac.add_resource(mk("inb"), "inb")
                            if p["leave"] == "exc":
                                raise ValueError("leave b")
                    except ValueError:
                        pass
                    # back in cur_ctx
                    ac.add_resource(mk("after"), "after")
                    exp = dict(vis(cur_ctx))
                    if "after" not in exp:
                        env.fail("visible", f"a resource added through the shortcut after leaving a context with an explicit parent landed outside the current context: "
                                            f"current sees {exp}, root sees {vis(root)}, mid sees {vis(mid)}")
                    for other, nm in ((root, "root"), (mid, "mid")):
                        if other is not cur_ctx and "after" in vis(other):
                            env.fail("visible", f"a resource added to the current context became visible in {nm}: {vis(other)}")
                    for name in ("r", "m", "i", "inb", "after"):
                        want = exp.get(name)
                        got = {}
                        got["method"] = labels.get(id(cur_ctx.get_resource_nowait(A, name, optional=True)))
                        got["shortcut"] = labels.get(id(ac.get_resource_nowait(A, name, optional=True)))
                        got["shortcut-async"] = labels.get(id(await ac.get_resource(A, name, optional=True)))
                        got["inject"] = labels.get(id(injected("A", name, True, False)()))
                        got["inject-async"] = labels.get(id(await injected("A", name, True, True)()))
                        if any(g != want for g in got.values()):
                            env.fail("visible", f"lookup paths disagree for (A, {name!r}) in the current context: {got}, get_resources says {want!r}")
                finally:
                    if p["depth"] == 3:
                        await stack[-1].__aexit__(None, None, None)

    async def comp_main(self, env: Any, p: dict) -> None:
        if p.get("same_task"):
            return await self.same_task_main(env, p)
        """A component tree root(a, g) publishes resources while it starts; at the point named by ``where`` a Context() is
        created from inside the component method (implicit parent) - optionally from inside another entered context - and must be
        a snapshot of the *surrounding* context at that moment, through every lookup API."""
        import asphalt.core as ac
        from asphalt.core import Component, Context, start_component

        from ..ctxuniverse import A, B, injected

        labels: dict[int, str] = {}

        class FalsyA(A):
            def __len__(self) -> int:
                return 0

        def mk(cls: type, label: str) -> Any:
            v = cls(label)
            labels[id(v)] = label
            return v

        outer: dict[str, Any] = {}

        async def probe(where: str) -> None:
            if p["where"] != where:
                return
            surrounding = outer["ctx"]
            expected = {(t, n): labels.get(id(v)) for t, T in (("A", A), ("B", B)) for n, v in surrounding.get_resources(T).items()}

            async def sweep_child(exp_parent: Any) -> None:
                child = Context()
                if child.parent is not exp_parent:
                    env.fail("visible", f"{where}: Context() created inside the component has parent {child.parent!r}, expected "
                                        f"{'the surrounding context' if exp_parent is surrounding else 'the context it was created in'}")
                async with child:
                    # something published later must not become visible in the child
                    surrounding.add_resource(mk(A, "late:" + where), "late")
                    for tname, T in (("A", A), ("B", B)):
                        for name in ("default", "x", "pre", "late", "fsync", "falsy"):
                            exp = expected.get((tname, name))
                            if name == "fsync" and tname == "B":
                                continue
                            for api in APIS:
                                try:
                                    if api == "nowait":
                                        r = child.get_resource_nowait(T, name, optional=True)
                                    elif api == "async":
                                        r = await child.get_resource(T, name, optional=True)
                                    elif api == "s_nowait":
                                        r = ac.get_resource_nowait(T, name, optional=True)
                                    elif api == "s_async":
                                        r = await ac.get_resource(T, name, optional=True)
                                    elif api == "inj_sync":
                                        r = injected(tname, name, True, False)()
                                    else:
                                        r = await injected(tname, name, True, True)()
                                except BaseException as e:  # noqa: BLE001
                                    r = e
                                got = labels.get(id(r)) if r is not None and not isinstance(r, BaseException) else r
                                if got != exp:
                                    env.fail("visible", f"{where}: {api}({tname}, {name!r}) in a context created inside the component returned {got!r}; "
                                                        f"the surrounding context had {exp!r} when the child was created")
                    got_all = {(t, n): labels.get(id(v)) for t, T in (("A", A), ("B", B)) for n, v in child.get_resources(T).items()}
                    if got_all != expected:
                        env.fail("visible", f"{where}: get_resources in the child {got_all} != snapshot of the surrounding context {expected}")

            # first: the component's own view (current context = its ComponentContext) through every lookup path, optional and strict
            cur = ac.current_context()
            for tname, T in (("A", A), ("B", B)):
                for name in ("default", "x", "pre", "fsync", "falsy", "nothing"):
                    exp = expected.get((tname, name))
                    if name == "fsync" and tname == "B":
                        continue
                    paths_ = [("s_nowait?", lambda: ac.get_resource_nowait(T, name, optional=True)),
                              ("m_nowait?", lambda: cur.get_resource_nowait(T, name, optional=True)),
                              ("s_async?", lambda: ac.get_resource(T, name, optional=True)),
                              ("m_async?", lambda: cur.get_resource(T, name, optional=True)),
                              ("inj_sync?", lambda: injected(tname, name, True, False)()),
                              ("inj_async?", lambda: injected(tname, name, True, True)()),
                              ("s_nowait", lambda: ac.get_resource_nowait(T, name)),
                              ("m_nowait", lambda: cur.get_resource_nowait(T, name)),
                              ("inj_sync", lambda: injected(tname, name, False, False)())]
                    if exp is not None:
                        # (a strict asynchronous lookup of something absent would wait for a sibling: only asked when present)
                        paths_ += [("s_async", lambda: ac.get_resource(T, name)), ("m_async", lambda: cur.get_resource(T, name)),
                                   ("inj_async", lambda: injected(tname, name, False, True)())]
                    for api, fn in paths_:
                        try:
                            r = fn()
                            if hasattr(r, "__await__"):
                                r = await r
                        except ac.ResourceNotFound:
                            r = "ResourceNotFound"
                        except BaseException as e:  # noqa: BLE001
                            r = repr(e)
                        got = labels.get(id(r), r) if r is not None else None
                        want = exp if (exp is not None or api.endswith("?")) else "ResourceNotFound"
                        if got != want:
                            env.fail("visible", f"{where}: inside the component {api}({tname}, {name!r}) gave {got!r}; the surrounding context has {exp!r}")
                for how, lister in (("shortcut", lambda: ac.get_resources(T)), ("method", lambda: cur.get_resources(T))):
                    got_l = {n: labels.get(id(v)) for n, v in lister().items()}
                    exp_l = {n: v for (t, n), v in expected.items() if t == tname}
                    if got_l != exp_l:
                        env.fail("visible", f"{where}: get_resources({tname}) ({how}) inside the component = {got_l}, the surrounding context has {exp_l}")
            if p["nest"]:
                async with Context() as mid:
                    if mid.parent is not surrounding:
                        env.fail("visible", f"{where}: Context() created inside the component has parent {mid.parent!r}, expected the surrounding context")
                    await sweep_child(mid)
            else:
                await sweep_child(surrounding)

        class Leaf(Component):
            def __init__(self, tag: str = "") -> None:
                self.tag = tag

            async def prepare(self) -> None:
                ac.add_resource(mk(A, f"{self.tag}:prepare"), f"{self.tag}p")
                await probe(f"{self.tag}.prepare")

            async def start(self) -> None:
                ac.add_resource(mk(A, f"{self.tag}:start"), f"{self.tag}s")
                await probe(f"{self.tag}.start")

        class Root(Component):
            def __init__(self) -> None:
                for alias in p["order"]:
                    self.add_component(alias, type=Leaf, tag=alias)

            async def prepare(self) -> None:
                ac.add_resource(mk(A, "root:prepare"), "default")
                ac.add_resource(mk(B, "root:prepare:B"), "x")
                ac.add_resource(mk(FalsyA, "root:prepare:falsy"), "falsy", A)  # a resource value that is falsy is still a resource
                await probe("root.prepare")

            async def start(self) -> None:
                ac.add_resource(mk(A, "root:start"), "x")
                await probe("root.start")

        async with Context() as ctx:
            outer["ctx"] = ctx
            ctx.add_resource(mk(A, "pre"), "pre")
            await start_component(Root, {}, timeout=None)

    def adds(self, idx: int, keys=("Ad", "Bd", "Ax", "ABd")) -> list[tuple]:
        return [("op", idx, ("add", k, False, f"v:c{idx}:{k}", "m")) for k in keys]

    def addfs(self, idx: int) -> list[tuple]:
        return [("op", idx, ("addf", "Ad", "sync", f"f:c{idx}:Ad", "m")),
                ("op", idx, ("addf", "BAd", "async", f"f:c{idx}:BAd", "m"))]

    def units(self, tier: str, seed: int) -> list:
        from .c04race import adder_units

        from .c19 import RACE as R19

        # race19: sibling contexts calling one injected coroutine function concurrently - what is injected into a call made in one
        # context never comes from its sibling
        return self._units0(tier, seed) + adder_units(tier) + [{"race19": u} for u in R19.units(tier, seed)]

    def work(self, unit: dict, tier: str) -> dict:
        if "race19" in unit:
            s = _R19.work(unit["race19"], tier)
            for v in s["violations"]:
                v["program"] = {"race19": v["program"]["race"]}
                v["keys"] = ["visible" if k == "cross-talk" else k for k in v["keys"]]
            s["keyhist"] = {("visible" if k == "cross-talk" else k): n for k, n in s.get("keyhist", {}).items()}
            return s
        if "race" in unit:
            from .c04race import RACE

            s = RACE.work(unit, tier)
            # only the clause that belongs to this property
            s["violations"] = [v for v in s["violations"] if "visible" in v["keys"]]
            s["keyhist"] = {k: n for k, n in s.get("keyhist", {}).items() if k == "visible"}
            return s
        return self._work0(unit, tier)

    def replay(self, rec: dict):  # type: ignore[no-untyped-def]
        if "race19" in rec.get("program", {}):
            return _R19.replay(dict(rec, program=rec["program"]["race19"]))
        if "race" in rec.get("program", {}):
            from .c04race import RACE

            return RACE.replay(rec)
        return self._replay0(rec)

    def enabled(self, u: Universe) -> list[tuple]:
        ops: list[tuple] = []
        n = len(u.models)
        roots = sum(1 for m in u.models if m.parent is None)
        if n < self.max_ctx:
            for m in u.models:
                if m.state == "open":
                    ops.append(("new", m.idx, False))
                    ops.append(("new", m.idx, True))
            if roots < 2:
                ops.append(("new", -1, False))
        for m in u.models:
            if m.state == "inactive":
                ops.append(("enter", m.idx, False))
            elif m.state == "open":
                if not any(c.parent is m and c.state in ("open", "closing") for c in u.models):
                    ops.append(("leave", m.idx, "clean"))
                for k in ("Ad", "Bd", "Ax", "ABd", "Ld"):
                    types, name = KEYS[k]
                    if all((t, name) not in m.res for t in types):
                        ops.append(("op", m.idx, ("add", k, False, f"v:c{m.idx}:{k}", "s" if k == "Bd" else "m")))
                if m.parent is not None and m.parent.state == "open" and not any(op[0] == "op" and op[2][0] == "boomp" for op in u.hist):
                    ops.append(("op", m.idx, ("boomp",)))
                # a two-type add that is refused because its SECOND type is taken (here or inherited): nothing of it becomes visible anywhere
                for k in ("ABd", "BAd"):
                    types, name = KEYS[k]
                    if (types[0], name) not in m.res and (types[1], name) in m.res and not any(op[0] == "op" and op[2][:2] == ("add", k) and "x:" in op[2][3] for op in u.hist):
                        ops.append(("op", m.idx, ("add", k, False, f"x:c{m.idx}:{k}", "m")))
                # the same for a two-type FACTORY whose second type already has a factory (here or inherited)
                for k in ("ABd", "BAd"):
                    types, name = KEYS[k]
                    if (types[0], name) not in m.fac and (types[1], name) in m.fac and not any(op[0] == "op" and op[2][:2] == ("addf", k) and "xf:" in op[2][3] for op in u.hist):
                        ops.append(("op", m.idx, ("addf", k, "sync", f"xf:c{m.idx}:{k}", "m")))
                for k, fk in (("Ad", "sync"), ("BAd", "async"), ("Ax", "sync")):
                    types, name = KEYS[k]
                    if all((t, name) not in m.fac for t in types):
                        ops.append(("op", m.idx, ("addf", k, fk, f"f:c{m.idx}:{k}", "s" if k == "Ax" else "m")))
                for tname, name in LOOKUPS:
                    if (tname, name) not in m.res and (tname, name) in m.fac:
                        f = m.fac[(tname, name)]
                        for api in APIS:
                            if f["async"] and api in ("nowait", "s_nowait", "inj_sync"):
                                continue
                            ops.append(("op", m.idx, ("get", api, tname, name, False)))
                            if api in ("inj_sync", "inj_async", "nowait") and not f["async"]:
                                # an optional lookup triggers the generation just the same
                                ops.append(("op", m.idx, ("get", api, tname, name, True)))
        return ops


CHECK = C02()
