"""Re-entrant resource factories (engine E3: exhaustive small-scope enumeration of scenario shapes).

A multi-type factory whose callback, while it runs, publishes a static resource under ANOTHER of the factory's own
(type, name) pairs in the requesting context.  That add succeeds (the pair was free), so the pair is taken when the
factory returns: the generated object must be registered only under the pairs still free, the static resource stays
what every lookup of its pair returns (C03: one resource per pair, stable hand-out; C04: 'for every one of the factory's
types that was not already taken'; C18: the generation event carries the types actually registered).
"""

from __future__ import annotations

import itertools
from typing import Any

import anyio

from ..explore import new_summary


class RA:
    def __init__(self, label: str) -> None:
        self.label = label

    def __repr__(self) -> str:
        return f"RA({self.label})"


class RB:
    def __init__(self, label: str) -> None:
        self.label = label

    def __repr__(self) -> str:
        return f"RB({self.label})"


class RAB(RA, RB):
    def __repr__(self) -> str:
        return f"RAB({self.label})"


def scenarios() -> list[dict]:
    out = []
    for order, fkind, req, api, handout, where, name in itertools.product(
            ("AB", "BA"), ("sync", "async"), ("A", "B"), ("nowait", "async", "inj_sync", "inj_async", "shortcut"),
            (False, True), ("own", "inherited"), ("default", "x")):
        if fkind == "async" and api in ("nowait", "inj_sync"):
            continue
        if name == "x" and (where == "inherited" or api.startswith("inj")):
            continue
        out.append({"order": order, "fkind": fkind, "req": req, "api": api, "handout": handout, "where": where, "name": name})
        if name == "default" and where == "own":
            # the callback takes the REQUESTED pair itself: the lookup then hands out what that pair resolves to
            out.append({"order": order, "fkind": fkind, "req": req, "api": api, "handout": handout, "where": where, "name": name, "target": "same"})
    return out


async def run_scenario(sc: dict) -> list[tuple[str, str]]:
    from asphalt.core import Context, get_resource, get_resource_nowait, inject, resource

    T = {"A": RA, "B": RB}
    fails: list[tuple[str, str]] = []
    req, other = sc["req"], ("B" if sc["req"] == "A" else "A")
    if sc.get("target") == "same":
        return await run_same(sc)
    name = sc["name"]
    st: dict[str, Any] = {"calls": 0, "static": None, "handed": None, "add_exc": None}
    events: list = []

    def body(ctx_box: dict) -> Any:
        st["calls"] += 1
        ctx = ctx_box["ctx"]
        s = T[other](f"static-{other}")
        try:
            ctx.add_resource(s, name, types=T[other])
            st["static"] = s
            if sc["handout"]:
                st["handed"] = ctx.get_resource_nowait(T[other], name)
        except BaseException as e:  # noqa: BLE001
            st["add_exc"] = e
        return RAB(f"generated#{st['calls']}")

    box: dict = {}
    if sc["fkind"] == "sync":
        def factory() -> Any:
            return body(box)
    else:
        async def factory() -> Any:  # type: ignore[misc]
            return body(box)

    ftypes = [T[c] for c in sc["order"]]

    @inject
    def inj_sync_A(r: RA = resource()) -> Any:
        return r

    @inject
    def inj_sync_B(r: RB = resource()) -> Any:
        return r

    @inject
    async def inj_async_A(r: RA = resource()) -> Any:
        return r

    @inject
    async def inj_async_B(r: RB = resource()) -> Any:
        return r

    async def lookup(ctx: Any, t: str, api: str) -> Any:
        if api == "nowait":
            return ctx.get_resource_nowait(T[t], name)
        if api == "async":
            return await ctx.get_resource(T[t], name)
        if api == "shortcut":
            return get_resource_nowait(T[t], name) if sc["fkind"] == "sync" else await get_resource(T[t], name)
        if api == "inj_sync":
            return (inj_sync_A if t == "A" else inj_sync_B)()
        return await (inj_async_A if t == "A" else inj_async_B)()

    async with Context() as parent:
        if sc["where"] == "inherited":
            parent.add_resource_factory(factory, name, types=ftypes)
        async with Context() as ctx:
            box["ctx"] = ctx
            if sc["where"] == "own":
                ctx.add_resource_factory(factory, name, types=ftypes)
            got_events: list = []
            started = anyio.Event()

            async def listen() -> None:
                async with ctx.resource_added.stream_events() as stream:
                    started.set()
                    async for ev in stream:
                        got_events.append((tuple(t.__name__ for t in ev.resource_types), ev.resource_name, ev.is_factory))

            async with anyio.create_task_group() as tg:
                tg.start_soon(listen)
                await started.wait()
                try:
                    try:
                        g = await lookup(ctx, req, sc["api"])
                    except BaseException as e:  # noqa: BLE001
                        return [("reentrant", f"the generating lookup raised {e!r}")]
                    if st["add_exc"] is not None:
                        return [("reentrant", f"add_resource() of the free pair ({other}, {name!r}) inside the factory callback raised {st['add_exc']!r}")]
                    if not isinstance(g, RAB) or st["calls"] != 1:
                        fails.append(("reentrant", f"the generating lookup returned {g!r} after {st['calls']} factory call(s)"))
                    s = st["static"]
                    if sc["handout"] and st["handed"] is not s:
                        fails.append(("stable", f"the lookup of ({other}, {name!r}) inside the callback returned {st['handed']!r}, not the object just added"))
                    for api in ("nowait", "async"):
                        try:
                            got_other = await lookup(ctx, other, api)
                        except BaseException as e:  # noqa: BLE001
                            got_other = e
                        if got_other is not s:
                            fails.append(("stable", f"({other}, {name!r}) was taken by {s!r} (added inside the factory callback"
                                                    + (", and handed out there" if sc["handout"] else "") + f") but a later {api} lookup returns {got_other!r}"))
                        try:
                            got_req = await lookup(ctx, req, api)
                        except BaseException as e:  # noqa: BLE001
                            got_req = e
                        if got_req is not g:
                            fails.append(("stable", f"({req}, {name!r}) was handed out as {g!r} but a later {api} lookup returns {got_req!r}"))
                    lst_o = ctx.get_resources(T[other])
                    lst_r = ctx.get_resources(T[req])
                    if lst_o.get(name) is not s or lst_r.get(name) is not g:
                        fails.append(("visible", f"get_resources: {other} -> {lst_o!r}, {req} -> {lst_r!r}; expected {s!r} and {g!r} under {name!r}"))
                    if st["calls"] != 1:
                        fails.append(("factory", f"the factory ran {st['calls']} times"))
                    # events: one for the static add (types = (other,)), one for the generation (types = (req,) only)
                    await anyio.wait_all_tasks_blocked()
                    exp_events = [((T[other].__name__,), name, False), ((T[req].__name__,), name, False)]
                    if got_events != exp_events:
                        fails.append(("events", f"resource_added events {got_events!r}, expected {exp_events!r}"))
                finally:
                    tg.cancel_scope.cancel()
            if parent.get_resources(RA) or parent.get_resources(RB):
                fails.append(("generated-scope", f"the parent context sees {parent.get_resources(RA)!r} / {parent.get_resources(RB)!r}"))
    return fails


async def run_same(sc: dict) -> list[tuple[str, str]]:
    """the factory callback publishes a static resource under the very pair that is being looked up"""
    from asphalt.core import Context, get_resource, get_resource_nowait, inject, resource

    T = {"A": RA, "B": RB}
    fails: list[tuple[str, str]] = []
    req, other = sc["req"], ("B" if sc["req"] == "A" else "A")
    name = sc["name"]
    st: dict[str, Any] = {"calls": 0, "static": None}
    box: dict = {}

    def body() -> Any:
        st["calls"] += 1
        s = T[req](f"static-{req}")
        box["ctx"].add_resource(s, name, types=T[req])
        st["static"] = s
        if sc["handout"]:
            st["handed"] = box["ctx"].get_resource_nowait(T[req], name)
        return RAB(f"generated#{st['calls']}")

    if sc["fkind"] == "sync":
        def factory() -> Any:
            return body()
    else:
        async def factory() -> Any:  # type: ignore[misc]
            return body()

    @inject
    def inj_sync_A(r: RA = resource()) -> Any:
        return r

    @inject
    def inj_sync_B(r: RB = resource()) -> Any:
        return r

    @inject
    async def inj_async_A(r: RA = resource()) -> Any:
        return r

    @inject
    async def inj_async_B(r: RB = resource()) -> Any:
        return r

    async def lookup(ctx: Any, t: str, api: str) -> Any:
        if api == "nowait":
            return ctx.get_resource_nowait(T[t], name)
        if api == "async":
            return await ctx.get_resource(T[t], name)
        if api == "shortcut":
            return get_resource_nowait(T[t], name) if sc["fkind"] == "sync" else await get_resource(T[t], name)
        if api == "inj_sync":
            return (inj_sync_A if t == "A" else inj_sync_B)()
        return await (inj_async_A if t == "A" else inj_async_B)()

    async with Context() as ctx:
        box["ctx"] = ctx
        ctx.add_resource_factory(factory, name, types=[T[c] for c in sc["order"]])
        got_events: list = []
        started = anyio.Event()

        async def listen() -> None:
            async with ctx.resource_added.stream_events() as stream:
                started.set()
                async for ev in stream:
                    got_events.append((tuple(t.__name__ for t in ev.resource_types), ev.resource_name, ev.is_factory))

        async with anyio.create_task_group() as tg:
            tg.start_soon(listen)
            await started.wait()
            try:
                try:
                    first = await lookup(ctx, req, sc["api"])
                except BaseException as e:  # noqa: BLE001
                    return [("reentrant", f"the generating lookup raised {e!r}")]
                s = st["static"]
                later = [await lookup(ctx, req, api) for api in ("nowait", "async")]
                if any(x is not first for x in later):
                    fails.append(("stable", f"the lookup of ({req}, {name!r}) returned {first!r}; later lookups of that pair return {later!r}"))
                if any(x is not s for x in later):
                    fails.append(("stable", f"({req}, {name!r}) was taken by {s!r} inside the factory callback but later lookups return {later!r}"))
                g = await lookup(ctx, other, "async")
                if not isinstance(g, RAB) or st["calls"] != 1:
                    fails.append(("factory", f"({other}, {name!r}) resolves to {g!r} after {st['calls']} factory call(s); expected the one generated object"))
                await anyio.wait_all_tasks_blocked()
                exp_events = [((T[req].__name__,), name, False), ((T[other].__name__,), name, False)]
                if got_events != exp_events:
                    fails.append(("events", f"resource_added events {got_events!r}, expected {exp_events!r}"))
            finally:
                tg.cancel_scope.cancel()
    return fails


def units(tier: str) -> list:
    n = len(scenarios())
    step = 16
    return [{"reent": [lo, min(n, lo + step)]} for lo in range(0, n, step)]


def work(unit: dict, keys: set | None = None) -> dict:
    import anyio

    s = new_summary()
    scs = scenarios()[unit["reent"][0]:unit["reent"][1]]
    kh: dict = {}
    for sc in scs:
        try:
            fails = anyio.run(run_scenario, sc)
        except BaseException as e:  # noqa: BLE001
            fails = [("reentrant", f"scenario crashed: {e!r}")]
        if keys is not None:
            fails = [f for f in fails if f[0] in keys]
        s["evaluations"] += 1
        s["nontrivial"] += 1
        if fails:
            for k in {f[0] for f in fails}:
                kh[k] = kh.get(k, 0) + 1
            if len(s["violations"]) < 3:
                s["violations"].append({"keys": sorted({f[0] for f in fails}), "fails": [list(f) for f in fails[:4]], "program": {"reent": sc},
                                        "choices": [], "trace": [], "outcome": "done"})
    s["transitions"] = s["states"] = s["distinct"] = s["evaluations"]
    s["outcomes"] = {"done": s["evaluations"]}
    s["keyhist"] = kh
    return s


def replay(rec: dict, prop: str, keys: set | None = None) -> int:
    import anyio

    sc = rec["program"]["reent"]
    fails = anyio.run(run_scenario, sc)
    if keys is not None:
        fails = [f for f in fails if f[0] in keys]
    print("scenario:", sc)
    for k, m in fails:
        print("FAIL", k, "-", m)
    if fails:
        print(f"VIOLATION property={prop} replay={rec.get('_path', '')}")
        return 1
    print("no violation on this tree")
    return 0
