"""Registrations made from inside a component (through the ComponentContext wrapper) with callables that are not plain
functions (engine E3: exhaustive enumeration of a small grid of operation x callable shape x phase x alias).

Every valid call must behave as on a plain context: registered under exactly the given types, announced by exactly one
event; every call that raises must leave nothing behind (C03 'unchanged') and must not have announced anything (C18).
"""

from __future__ import annotations

import functools
import itertools
from typing import Any

import anyio

from ..explore import new_summary


class PA:
    def __init__(self, label: str) -> None:
        self.label = label


class PB:
    def __init__(self, label: str) -> None:
        self.label = label


class PAB(PA, PB):
    pass


SHAPES = ("function", "lambda", "partial", "object", "method", "async-object", "bad-no-types-object", "bad-no-types-partial", "bad-td-int", "bad-td-str")
OPS = ("factory", "resource-td")


def scenarios() -> list[dict]:
    out = []
    for op, shape, phase, alias, ntypes in itertools.product(OPS, SHAPES, ("prepare", "start"), ("plain", "kind/name", "kind/name>plain"), (1, 2)):
        if op == "resource-td" and (shape.startswith(("bad-no", "async"))):
            continue
        if op == "factory" and shape.startswith("bad-td"):
            continue
        if alias == "kind/name>plain" and (shape not in ("function", "object") or phase != "start"):
            continue  # a plain-alias component nested below a kind/name component: its default-named registrations stay "default"
        out.append({"op": op, "shape": shape, "phase": phase, "alias": alias, "ntypes": ntypes})
    for phase in ("prepare", "start"):
        out.append({"op": "lookups", "phase": phase})
    return out


async def run_scenario(sc: dict) -> list[tuple[str, str]]:
    import asphalt.core as ac
    from asphalt.core import Component, Context, start_component

    fails: list[tuple[str, str]] = []
    if sc["op"] == "lookups":
        return await run_lookups(sc)
    made: list[Any] = []
    td_ran: list[str] = []
    outcome: dict[str, Any] = {}
    types = [PA, PB] if sc["ntypes"] == 2 else [PA]
    cls = PAB if sc["ntypes"] == 2 else PA

    def make(tag: str = "x") -> Any:
        v = cls(f"made-{tag}-{len(made)}")
        made.append(v)
        return v

    class FactoryObj:
        def __call__(self) -> Any:
            return make("obj")

        def method(self) -> Any:
            return make("method")

    class AsyncFactoryObj:
        async def __call__(self) -> Any:
            return make("aobj")

    class Closer:
        def __call__(self) -> None:
            td_ran.append("obj")

        def close(self) -> None:
            td_ran.append("method")

    def close_fn(tag: str = "fn") -> None:
        td_ran.append(tag)

    shape = sc["shape"]
    if sc["op"] == "factory":
        cb: Any = {"function": make, "lambda": lambda: make("lambda"), "partial": functools.partial(make, "partial"), "object": FactoryObj(),
                   "method": FactoryObj().method, "async-object": AsyncFactoryObj(), "bad-no-types-object": FactoryObj(),
                   "bad-no-types-partial": functools.partial(make, "partial")}[shape]
    else:
        cb = {"function": close_fn, "lambda": lambda: close_fn("lambda"), "partial": functools.partial(close_fn, "partial"), "object": Closer(),
              "method": Closer().close, "bad-td-int": 5, "bad-td-str": "close"}[shape]  # (the last two are not callable: the call must fail cleanly)
    valid = not shape.startswith("bad")
    name = "default" if sc["alias"].startswith("kind/name") else "thing"
    value = cls("static")

    async def phase_body() -> None:
        try:
            if sc["op"] == "factory":
                if valid:
                    ac.add_resource_factory(cb, name, types=list(types) if len(types) > 1 else types[0], description="desc")
                else:
                    ac.add_resource_factory(cb, name)  # no types, and nothing to read them from
            else:
                ac.add_resource(value, name, list(types) if len(types) > 1 else types[0], description="desc", teardown_callback=cb)
            outcome["result"] = ("ok", None)
        except BaseException as e:  # noqa: BLE001
            outcome["result"] = ("exc", e)

    class Comp(Component):
        async def prepare(self) -> None:
            if sc["phase"] == "prepare":
                await phase_body()

        async def start(self) -> None:
            if sc["phase"] == "start":
                await phase_body()

    class Holder(Component):
        def __init__(self) -> None:
            self.add_component("comp", Comp)

    class Root(Component):
        def __init__(self) -> None:
            if sc["alias"] == "kind/name>plain":
                self.add_component("kind/name", Holder)
            else:
                self.add_component("kind/name" if sc["alias"] == "kind/name" else "comp", Comp)

    events: list = []
    started = anyio.Event()

    async def listen(ctx: Any) -> None:
        async with ctx.resource_added.stream_events() as stream:
            started.set()
            async for ev in stream:
                events.append((tuple(t.__name__ for t in ev.resource_types), ev.resource_name, ev.resource_description, ev.is_factory))

    start_exc: Any = None
    async with Context() as ctx:
        async with anyio.create_task_group() as tg:
            tg.start_soon(listen, ctx)
            await started.wait()
            try:
                await start_component(Root, {}, timeout=5)
            except BaseException as e:  # noqa: BLE001
                start_exc = e
            await anyio.wait_all_tasks_blocked()
            # the name the registration must be found under (default-named registrations of a kind/name component made in start())
            reg_name = "name" if (sc["alias"] == "kind/name" and sc["phase"] == "start") else name
            res = outcome.get("result")
            tnames = tuple(t.__name__ for t in types)
            if start_exc is not None or res is None:
                fails.append(("conflict", f"start_component failed: {start_exc!r} (operation result {res!r})"))
            elif valid and res[0] != "ok":
                # a valid call was refused: whatever it left behind is a failed call that changed the context
                left_ev = list(events)
                if left_ev:
                    fails.append(("events", f"the call raised {res[1]!r} but {left_ev} had been announced"))
                present = None
                for nm in {name, reg_name}:
                    for T in types:
                        try:
                            got = await ctx.get_resource(T, nm, optional=True)
                        except BaseException as e:  # noqa: BLE001
                            got = e
                        if got is not None:
                            present = (T.__name__, nm, got)
                if present is not None:
                    fails.append(("unchanged", f"the call raised {res[1]!r} but a lookup of {present[:2]} now gives {present[2]!r}"))
                if not left_ev and present is None:
                    fails.append(("conflict", f"a valid registration ({sc}) was refused with {res[1]!r}"))
            elif not valid:
                if res[0] == "ok":
                    fails.append(("conflict", f"an invalid registration ({sc['op']}, {shape}) was accepted"))
                if events:
                    fails.append(("events", f"the failing call announced {events}"))
                for nm in {name, reg_name}:
                    for T in (PA, PB):
                        try:
                            got = await ctx.get_resource(T, nm, optional=True)
                        except BaseException as e:  # noqa: BLE001
                            got = e
                        if got is not None:
                            fails.append(("unchanged", f"the failing call left something behind: lookup of ({T.__name__}, {nm!r}) gives {got!r}"))
            else:
                exp_ev = [(tnames, reg_name, "desc", sc["op"] == "factory")]
                # lookups: every type, both APIs where possible
                objs = []
                for T in types:
                    try:
                        if shape == "async-object":
                            objs.append(await ctx.get_resource(T, reg_name))
                        else:
                            objs.append(ctx.get_resource_nowait(T, reg_name))
                            objs.append(await ctx.get_resource(T, reg_name))
                    except BaseException as e:  # noqa: BLE001
                        fails.append(("unchanged", f"lookup of ({T.__name__}, {reg_name!r}) after a successful registration raised {e!r}"))
                if sc["op"] == "factory":
                    if objs and (len({id(o) for o in objs}) != 1 or len(made) != 1):
                        fails.append(("conflict", f"the factory registered from the component produced {len(made)} objects for one context ({objs!r})"))
                    exp_ev.append((tnames, reg_name, "desc", False))
                elif any(o is not value for o in objs):
                    fails.append(("conflict", f"lookups returned {objs!r}, the published value is {value!r}"))
                await anyio.wait_all_tasks_blocked()
                if events != exp_ev:
                    fails.append(("events", f"events {events}, expected {exp_ev}"))
            tg.cancel_scope.cancel()
    if sc["op"] == "resource-td" and outcome.get("result", ("?",))[0] == "ok" and valid:
        want = {"function": ["fn"], "lambda": ["lambda"], "partial": ["partial"], "object": ["obj"], "method": ["method"]}[shape]
        if td_ran != want:
            fails.append(("teardown", f"teardown callbacks that ran: {td_ran}, expected {want}"))
    elif sc["op"] == "resource-td" and td_ran:
        fails.append(("unchanged", f"the call raised but its teardown callback ran: {td_ran}"))
    return fails


async def run_lookups(sc: dict) -> list[tuple[str, str]]:
    """Inside a component every lookup path - method / shortcut, sync / async, optional or not, @inject - resolves a (type, name)
    pair to the same object, for the default name and for other names alike."""
    import asphalt.core as ac
    from asphalt.core import Component, Context, start_component

    fails: list[tuple[str, str]] = []
    objs = {"default": PA("default"), "backup": PA("backup"), "x9": PA("x9")}

    @ac.inject
    async def inj_backup(r: PA = ac.resource("backup")) -> Any:
        return r

    @ac.inject
    def inj_x9(r: PA | None = ac.resource("x9")) -> Any:
        return r

    async def body() -> None:
        cur = ac.current_context()
        for name, obj in objs.items():
            seen = {
                "shortcut nowait": ac.get_resource_nowait(PA, name),
                "shortcut nowait optional": ac.get_resource_nowait(PA, name, optional=True),
                "shortcut async": await ac.get_resource(PA, name),
                "shortcut async optional": await ac.get_resource(PA, name, optional=True),
                "method nowait": cur.get_resource_nowait(PA, name),
                "method async": await cur.get_resource(PA, name),
                "method async optional": await cur.get_resource(PA, name, optional=True),
                "get_resources": ac.get_resources(PA).get(name),
            }
            if name == "backup":
                seen["inject async"] = await inj_backup()
            if name == "x9":
                seen["inject sync optional"] = inj_x9()
            for how, got in seen.items():
                if got is not obj:
                    fails.append(("stable", f"inside a component's {sc['phase']}(): {how} of (PA, {name!r}) gave {getattr(got, 'label', got)!r}, other lookups give {obj.label!r}"))
        # a plain Context() created here, after something was published during this very phase: the pair is taken in it too - every
        # lookup gives the same object, and adding it again is refused and changes nothing
        late = PA("late")
        ac.add_resource(late, "late")
        async with Context() as child:
            for name, obj in list(objs.items()) + [("late", late)]:
                for how, got in (("nowait", child.get_resource_nowait(PA, name, optional=True)), ("async", await child.get_resource(PA, name, optional=True)),
                                 ("get_resources", child.get_resources(PA).get(name))):
                    if got is not obj:
                        fails.append(("stable", f"a context created inside a component's {sc['phase']}(): {how} of (PA, {name!r}) gave {getattr(got, 'label', got)!r}, the surrounding context gives {obj.label!r}"))
            try:
                child.add_resource(PA("dup"), "late")
                fails.append(("conflict", f"a context created inside a component's {sc['phase']}() accepted a second resource for the taken pair (PA, 'late')"))
            except ac.ResourceConflict:
                pass
            if child.get_resource_nowait(PA, "late", optional=True) is not late:
                fails.append(("stable", "after the refused add the pair (PA, 'late') resolves to another object"))
        for how, got in (("shortcut async optional", await ac.get_resource(PB, "backup", optional=True)),
                         ("shortcut nowait optional", ac.get_resource_nowait(PB, "backup", optional=True))):
            if got is not None:
                fails.append(("stable", f"inside a component's {sc['phase']}(): {how} of the unregistered pair (PB, 'backup') gave {got!r}"))

    class Comp(Component):
        async def prepare(self) -> None:
            if sc["phase"] == "prepare":
                await body()

        async def start(self) -> None:
            if sc["phase"] == "start":
                await body()

    async with Context() as ctx:
        for name, obj in objs.items():
            ctx.add_resource(obj, name)
        await start_component(Comp, {}, timeout=5)
    return fails


def units(tier: str) -> list:
    n = len(scenarios())
    step = 12
    return [{"compadds": [lo, min(n, lo + step)]} for lo in range(0, n, step)]


def work(unit: dict, keys: set | None = None) -> dict:
    s = new_summary()
    scs = scenarios()[unit["compadds"][0]:unit["compadds"][1]]
    kh: dict = {}
    for sc in scs:
        try:
            fails = anyio.run(run_scenario, sc)
        except BaseException as e:  # noqa: BLE001
            fails = [("conflict", f"scenario crashed: {e!r}")]
        if keys is not None:
            fails = [f for f in fails if f[0] in keys]
        s["evaluations"] += 1
        s["nontrivial"] += 1
        if fails:
            for k in {f[0] for f in fails}:
                kh[k] = kh.get(k, 0) + 1
            if len(s["violations"]) < 3:
                s["violations"].append({"keys": sorted({f[0] for f in fails}), "fails": [list(f) for f in fails[:4]], "program": {"compadds": sc},
                                        "choices": [], "trace": [], "outcome": "done"})
    s["transitions"] = s["states"] = s["distinct"] = s["evaluations"]
    s["outcomes"] = {"done": s["evaluations"]}
    s["keyhist"] = kh
    return s


def replay(rec: dict, prop: str, keys: set | None = None) -> int:
    sc = rec["program"]["compadds"]
    fails = anyio.run(run_scenario, sc)
    if keys is not None:
        fails = [f for f in fails if f[0] in keys]
    print("scenario:", sc)
    for k, m in fails:
        print("FAIL", k, "-", m)
    if fails:
        print(f"VIOLATION property={prop} replay={rec.get('_path', '')}")
        return 1
    print("no violation on this tree")
    return 0
