"""C12 - current_context() follows strict per-task stack discipline (engine E1)."""

from __future__ import annotations

import itertools
from typing import Any

import anyio
from anyio.lowlevel import checkpoint

from ..explore import E1Check

MODES = ("normal", "exc", "cancel", "tdraise", "tdnew", "precancel")  # precancel: a cancellation is already pending when the block is entered
SHAPES = ("()", "()()", "(())")
SPAWNS = ("tg", "service", "factory", "component")
EXTRA_SPAWNS = ("service-outer", "factory-outer", "component-nested")


class HE(Exception):
    pass


class Boom:
    pass


def scripts(modeset=MODES) -> list:
    out = []
    for m in modeset:
        out.append([(m, [])])
    for a, b in itertools.product(modeset, repeat=2):
        out.append([(a, []), (b, [])])
        out.append([(a, [(b, [])])])
    return out


class C12(E1Check):
    id = "C12"
    assumptions = [
        "1-2 concurrent tasks (3 in thorough), each with a script of <= 4 enter/leave operations, spawned from inside 0-2 entered contexts",
        "ways of leaving a block: normally, by an exception, by cancellation of a scope around the block, with a teardown callback that raises",
    ]

    def rule(self, tier: str) -> str:
        return ("program = outer nesting depth x spawn kind per task (task group, service task, task factory, component prepare) x script per task; "
                "executions = all interleavings of the gate-delimited steps; after every step of every task current_context() is compared with "
                "that task's model stack and a freshly created Context().parent with the model's top; distinct = distinct traces")

    def bounds(self, tier: str) -> dict:
        return {"tasks": 2 if tier == "quick" else 3, "script_ops": 4, "deviation_bound": 0 if tier == "quick" else "2 for one task, 0 (all interleavings of the gate-delimited steps) for two and three tasks"}

    def units(self, tier: str, seed: int) -> list:
        progs = []
        allsc = scripts()
        few = scripts(("normal", "exc"))[:3] + [[("cancel", [("tdraise", [])])], [("tdraise", []), ("cancel", [])]]
        for depth in (0, 1, 2):
            for spawn in SPAWNS:
                if spawn != "tg" and depth == 0:
                    continue
                for sc in allsc:
                    progs.append({"depth": depth, "tasks": [{"spawn": spawn, "script": sc}]})
        for depth in (1, 2):
            for spawn in SPAWNS:
                for sc in allsc[::4] if tier == "quick" else allsc[::2]:
                    progs.append({"depth": depth, "noise": True, "tasks": [{"spawn": spawn, "script": sc}]})
                for sc in allsc[1::4] if tier == "quick" else allsc[1::2]:
                    progs.append({"depth": depth, "falsy": True, "tasks": [{"spawn": spawn, "script": sc}]})
            for sc in allsc[2::3] if tier == "quick" else allsc:
                for spawn in ("tg", "service"):
                    progs.append({"depth": depth, "precreate": True, "tasks": [{"spawn": spawn, "script": sc}]})
            for sc in allsc[::3] if tier == "quick" else allsc:
                progs.append({"depth": depth, "tasks": [{"spawn": "tg-outlive", "script": sc}]})
                if depth == 1:
                    progs.append({"depth": depth, "tasks": [{"spawn": "tg-outlive", "script": sc}, {"spawn": "tg", "script": sc}]})
        for sc in allsc[::3] if tier == "quick" else allsc:
            for spawn in EXTRA_SPAWNS:
                progs.append({"depth": 2, "tasks": [{"spawn": spawn, "script": sc}]})
            for spawn in ("tg", "component", "service"):
                progs.append({"depth": 1, "explicit": True, "tasks": [{"spawn": spawn, "script": sc}]})
        if tier == "quick":
            one = scripts()[:4]
            two = one + [[("normal", [("exc", [])])], [("cancel", []), ("tdraise", [])], [("tdraise", [("cancel", [])])], [("exc", []), ("normal", [])]]
            pairs = [("tg", "tg", 0), ("tg", "tg", 1), ("tg", "tg", 2), ("tg", "service", 1), ("service", "factory", 1), ("component", "component", 1),
                     ("factory", "tg", 2), ("component", "tg", 1), ("service", "service", 2), ("component", "factory", 2)]
            for sa, sb, depth in pairs:
                for a in two:
                    for b in one:
                        progs.append({"depth": depth, "tasks": [{"spawn": sa, "script": a}, {"spawn": sb, "script": b}]})
        else:
            for depth in (0, 1, 2):
                for sa, sb in itertools.product(SPAWNS, repeat=2):
                    if depth == 0 and (sa != "tg" or sb != "tg"):
                        continue
                    for i, a in enumerate(allsc):
                        for b in few:
                            if (i % 3 != (depth + len(progs)) % 3) and sa == sb:
                                continue
                            progs.append({"depth": depth, "tasks": [{"spawn": sa, "script": a}, {"spawn": sb, "script": b}]})
        def nops(sc: list) -> int:
            return sum(1 + nops(ch) for _m, ch in sc)

        if tier == "thorough":
            # measured: two tasks with 4 blocks in total cost ~2 200 schedules per program, three tasks with >= 5 blocks exceed the
            # 30 000-execution cap (the tasks are independent, the interleavings are not reduced): every 2nd of the former, none of the latter
            two4 = [p for p in progs if len(p["tasks"]) == 2 and sum(nops(t["script"]) for t in p["tasks"]) >= 4]
            drop = {id(p) for p in two4[1::2]}
            progs = [p for p in progs if id(p) not in drop]
            for sc3 in itertools.product(few, repeat=3):
                if sum(nops(x) for x in sc3) > 4:
                    continue
                for sp in (("tg", "tg", "tg"), ("tg", "service", "factory"), ("component", "component", "tg")):
                    progs.append({"depth": 1, "tasks": [{"spawn": s, "script": x} for s, x in zip(sp, sc3)]})
        return progs

    def bound(self, tier: str, program: Any) -> int:
        return 0 if tier == "quick" else (2 if len(program["tasks"]) == 1 else 0)

    def max_execs(self, tier: str, program: Any) -> int:
        return 3000 if tier == "quick" else 30000

    def hash_modes(self, tier: str, program: Any) -> tuple:
        return (0,)

    async def main(self, env: Any, program: dict) -> None:
        from asphalt.core import Component, Context, NoCurrentContext, current_context, start_component

        log = env.log
        fails = env.data["fails"] = []

        def cur() -> Any:
            try:
                return current_context()
            except NoCurrentContext:
                return None

        outer: list[Any] = []

        class SizedContext(Context):
            """a context subclass that is also a (still empty, hence falsy) container"""

            def __len__(self) -> int:
                return 0

        Ctx: Any = SizedContext if program.get("falsy") else Context
        all_left = anyio.Event()

        def check(t: int, stack: list, where: str) -> None:
            c = cur()
            top = stack[-1]
            if c is not top:
                fails.append(("current", f"task {t} {where}: current_context() is {_d(c)}, model stack top is {_d(top)}"))
            log("chk", t, where, c is top)

        names: dict[int, str] = {}

        def _d(c: Any) -> str:
            if c is None:
                return "NoCurrentContext"
            return names.get(id(c), f"<{type(c).__name__}>")

        noise_n = [0]
        st_pre: dict[int, list] = {}
        st_pre_parent: dict[int, Any] = {}

        def count_nodes(sc: list) -> int:
            return sum(1 + count_nodes(ch) for _m, ch in sc)

        def failing_sync() -> Any:
            raise HE("sync factory fails")

        async def failing_async() -> Any:
            await checkpoint()
            raise HE("async factory fails")

        def give_factories(ctx: Any) -> None:
            from asphalt.core import ResourceConflict

            try:
                ctx.add_resource_factory(failing_sync, "boom_sync", types=Boom)
                ctx.add_resource_factory(failing_async, "boom_async", types=Boom)
            except ResourceConflict:
                pass  # inherited from a context that already has them

        async def noise(t: int, stack: list, path: str, ctx: Any) -> None:
            """Operations that have nothing to do with entering or leaving a block: lookups that FAIL inside a resource factory, made
            through the current context and through the (non-current) context below it; current_context() must not move."""
            give_factories(ctx)
            below = next((c for c in reversed(stack[:-1]) if c is not None), None)
            for who, target in (("current", cur()), ("below", below)):
                if target is None:
                    continue
                try:
                    target.get_resource_nowait(Boom, "boom_sync")
                except HE:
                    pass
                except Exception as e:  # noqa: BLE001 - (a context that does not have the factories: not the point here)
                    log("noise-other", t, path, who, type(e).__name__)
                check(t, stack, f"inside {path} after a failed sync-factory lookup through the {who} context")
                try:
                    await target.get_resource(Boom, "boom_async")
                except HE:
                    pass
                except Exception as e:  # noqa: BLE001
                    log("noise-other", t, path, who, type(e).__name__)
                check(t, stack, f"inside {path} after a failed async-factory lookup through the {who} context")
            # a service task that fails before it reports started(), started on the current and on the context below
            async def bad_service(*, task_status: Any) -> None:
                raise HE("service fails while starting")

            for who, target in (("current", cur()), ("below", below)):
                if target is None or not hasattr(target, "start_service_task"):
                    continue
                noise_n[0] += 1
                try:
                    await target.start_service_task(bad_service, f"bad{noise_n[0]}")
                except BaseException as e:  # noqa: BLE001
                    if not (isinstance(e, HE) or (isinstance(e, BaseExceptionGroup) and e.subgroup(HE) is not None)):
                        log("noise-other", t, path, who, type(e).__name__)
                check(t, stack, f"inside {path} after a service task failed to start on the {who} context")
            # entering the context of the running block once more is refused - every time - and changes nothing
            for attempt in (1, 2):
                try:
                    await ctx.__aenter__()
                    fails.append(("current", f"task {t}: re-entering the open context {path} (attempt {attempt}) was accepted"))
                    await ctx.__aexit__(None, None, None)
                except RuntimeError:
                    pass
                check(t, stack, f"inside {path} after re-entry attempt {attempt} was refused")
            n = Context()
            if n.parent is not ctx:
                fails.append(("parent", f"task {t}: Context() created inside {path} after failed lookups has parent {_d(n.parent)}, expected {_d(ctx)}"))

        async def run_block(t: int, stack: list, node: tuple, path: str, new_parent: Any) -> None:
            mode, children = node
            await env.gate(f"t{t}.{path}.enter")
            check(t, stack, f"before entering {path}")
            pre = program.get("precreate") and st_pre.get(t)
            if pre:
                # the context object was created up front (when the task's bottom context was current) and is only ENTERED here
                ctx = pre.pop(0)
                new_parent = st_pre_parent[t]
            else:
                ctx = Ctx(cur()) if program.get("explicit") and cur() is not None else Ctx()
            names[id(ctx)] = f"t{t}:{path}"
            if ctx.parent is not new_parent:
                fails.append(("parent", f"task {t}: Context() created at {path} has parent {_d(ctx.parent)}, expected {_d(new_parent)}"))
            try:
                with anyio.CancelScope() as scope:
                    if mode == "precancel":
                        scope.cancel()
                    async with ctx:
                        stack.append(ctx)
                        try:
                            check(t, stack, f"inside {path}")
                            if program.get("noise"):
                                await noise(t, stack, path, ctx)
                            if mode == "tdraise":
                                def raiser() -> None:
                                    raise HE("teardown")

                                ctx.add_teardown_callback(raiser)
                            if mode == "tdnew":
                                # a context created while `ctx` is being torn down: `ctx` is still the current context, so it is the parent
                                def creator(ctx: Any = ctx, path: str = path) -> None:
                                    c = cur()
                                    if c is not ctx:
                                        fails.append(("current", f"task {t}: inside a teardown callback of {path} current_context() is {_d(c)}"))
                                    n = Context()
                                    if n.parent is not ctx:
                                        fails.append(("parent", f"task {t}: Context() created inside a teardown callback of {path} has parent {_d(n.parent)}, expected {_d(ctx)}"))

                                ctx.add_teardown_callback(creator)
                            for k, ch in enumerate(children):
                                await run_block(t, stack, ch, f"{path}.{k}", ctx)
                                check(t, stack, f"inside {path} after child {k}")
                            await env.gate(f"t{t}.{path}.leave")
                            check(t, stack, f"before leaving {path}")
                            if mode == "exc":
                                raise HE("block")
                            if mode == "cancel":
                                scope.cancel()
                                await checkpoint()
                        finally:
                            stack.pop()
            except BaseException as e:  # noqa: BLE001
                if not (isinstance(e, HE) or (isinstance(e, BaseExceptionGroup) and e.subgroup(HE) is not None)):
                    raise
            check(t, stack, f"after leaving {path} ({mode})")

        async def task_body(t: int, spec: dict, validate) -> None:
            bottom = cur()
            names.setdefault(id(bottom), f"t{t}:bottom") if bottom is not None else None
            msg = validate(bottom)
            if msg:
                fails.append(("inherit", f"task {t} ({spec['spawn']}): {msg}"))
            stack = [bottom]
            if spec["spawn"] == "tg-outlive":
                # the task outlives the contexts it was spawned in: what it inherited stays its current context, closed or not -
                # also when the task itself is the only thing that still refers to it (the harness keeps a weak reference only)
                import gc
                import weakref

                bref = weakref.ref(bottom)

                def chain_names(c: Any) -> list:
                    out = []
                    while c is not None:
                        out.append(names.get(id(c), "?"))
                        c = c.parent
                    return out

                chain0 = chain_names(bottom)
                stack[0] = None
                del bottom, validate
                await all_left.wait()
                gc.collect()
                c0 = cur()
                if c0 is None or bref() is not c0:
                    fails.append(("current", f"task {t} after the contexts it was spawned in have been left (and nothing else refers to them): "
                                             f"current_context() is {_d(c0)}, it inherited {names.get(id(bref()), 'a context that is gone') if bref() else 'a context that has been freed'}"))
                if c0 is not None and chain_names(c0) != chain0:
                    fails.append(("parent", f"task {t}: the chain of parents of its inherited context was {chain0} and is {chain_names(c0)} after the blocks were left"))
                stack[0] = c0
                bottom = c0
                log("chk", t, "outlive", c0 is not None)
            if program.get("noise") and bottom is not None:
                # also outside any block of its own: inside prepare() the current context is a ComponentContext that forwards lookups
                for o in outer:
                    give_factories(o)
                for api in ("sync", "async"):
                    try:
                        if api == "sync":
                            bottom.get_resource_nowait(Boom, "boom_sync")
                        else:
                            await bottom.get_resource(Boom, "boom_async")
                    except HE:
                        pass
                    except Exception as e:  # noqa: BLE001
                        log("noise-other", t, "bottom", api, type(e).__name__)
                    check(t, stack, f"at the bottom after a failed {api}-factory lookup")
            new_parent = outer[-1] if spec["spawn"] == "component" else bottom
            if program.get("precreate"):
                st_pre[t] = [Ctx() for _ in range(count_nodes(spec["script"]))]
                st_pre_parent[t] = new_parent
            for k, node in enumerate(spec["script"]):
                await run_block(t, stack, node, str(k), new_parent)
            await env.gate(f"t{t}.end")
            check(t, stack, "at the end")
            log("task-done", t)

        async def spawn_all(tg: Any) -> None:
            owner = outer[-1] if outer else None
            comps = []
            for t, spec in enumerate(program["tasks"]):
                kind = spec["spawn"]
                if kind == "tg":
                    tg.start_soon(task_body, t, spec, lambda b, owner=owner: None if b is owner else f"inherited {_d(b)}, the spawner's current context is {_d(owner)}")
                elif kind == "tg-outlive":
                    outer_tg.start_soon(task_body, t, spec, lambda b, owner=owner: None if b is owner else f"inherited {_d(b)}, the spawner's current context is {_d(owner)}")
                elif kind in ("service-outer", "factory-outer"):
                    # the owner is an outer context, not the one that is current where the task is started
                    far = outer[0]

                    def v4(b: Any, far: Any = far) -> Any:
                        chain = []
                        c = b
                        while c is not None:
                            chain.append(c)
                            c = c.parent
                        if b is None or b is far or far not in chain or any(o in chain for o in outer[1:]):
                            return f"task context {_d(b)} does not inherit from the context it was started on ({_d(far)}) but from {[_d(x) for x in chain[1:]]}"
                        return None

                    if kind == "service-outer":
                        await far.start_service_task(lambda t=t, spec=spec, v4=v4: task_body(t, spec, v4), f"svc{t}")
                    else:
                        factory = await far.start_background_task_factory()
                        factory.start_task_soon(lambda t=t, spec=spec, v4=v4: task_body(t, spec, v4), f"ft{t}")
                elif kind == "service":
                    def v(b: Any, owner: Any = owner) -> Any:
                        if b is None or b is owner or b.parent is not owner:
                            return f"service task context {_d(b)} is not a fresh child of its owner {_d(owner)}"
                        return None

                    await owner.start_service_task(lambda t=t, spec=spec, v=v: task_body(t, spec, v), f"svc{t}")
                elif kind == "factory":
                    def v2(b: Any, owner: Any = owner) -> Any:
                        if b is None or b is owner or b.parent is None or b.parent.parent is not owner:
                            return f"factory task context {_d(b)} does not inherit from the factory's context under {_d(owner)}"
                        return None

                    factory = await owner.start_background_task_factory()
                    factory.start_task_soon(lambda t=t, spec=spec, v2=v2: task_body(t, spec, v2), f"ft{t}")
                elif kind == "component-nested":
                    # a component tree started from inside the start() of a component of another tree
                    def v5(b: Any, owner: Any = owner) -> Any:
                        if b is None or b is owner:
                            return f"inside the inner tree's prepare() current_context() is {_d(b)}"
                        return None

                    async def iprepare(self, t=t, spec=spec) -> None:
                        await task_body(t, dict(spec, spawn="component"), v5)

                    Inner = type(f"Inner{t}", (Component,), {"prepare": iprepare})

                    async def ostart(self, Inner=Inner) -> None:
                        await start_component(Inner, {}, timeout=None)

                    def oinit(self) -> None:
                        pass

                    Outer = type(f"Outer{t}", (Component,), {"start": ostart})
                    await start_component(Outer, {}, timeout=None)
                else:
                    comps.append((t, spec))
            if comps:
                def v3(b: Any, owner: Any = owner) -> Any:
                    if b is None or b is owner:
                        return f"inside prepare() current_context() is {_d(b)}"
                    return None

                classes = {}
                for t, spec in comps:
                    async def prepare(self, t=t, spec=spec) -> None:
                        await task_body(t, spec, v3)

                    classes[f"c{t}"] = type(f"Comp{t}", (Component,), {"prepare": prepare})

                def rinit(self) -> None:
                    for alias, cls in classes.items():
                        self.add_component(alias, type=cls)

                Root = type("Root", (Component,), {"__init__": rinit})
                await start_component(Root, {}, timeout=None)
                log("components-started")

        async def nest(d: int) -> None:
            if d == 0:
                async with anyio.create_task_group() as tg:
                    await spawn_all(tg)
                    await env.gate("outer.leave")
                log("tasks-joined")
                c = cur()
                if c is not (outer[-1] if outer else None):
                    fails.append(("current", f"main task: current_context() is {_d(c)} after the tasks, expected {_d(outer[-1] if outer else None)}"))
                return
            async with Ctx() as ctx:
                names[id(ctx)] = f"outer{len(outer)}"
                outer.append(ctx)
                await nest(d - 1)
                outer.pop()

        outer_tg: Any = None
        async with anyio.create_task_group() as outer_tg:
            await nest(program["depth"])
            if cur() is not None:
                fails.append(("current", f"main task: current_context() is {_d(cur())} after everything was left"))
            all_left.set()
        if cur() is not None:
            fails.append(("current", f"main task: current_context() is {_d(cur())} after everything was left"))
        for f in fails:
            env.fail(*f)


CHECK = C12()
