"""C09 - task factories: inherited context, exact handle set, teardown waits, errors kept (engine E1)."""

from __future__ import annotations

import itertools
from typing import Any

import anyio

from ..explore import E1Check


class Res:
    def __init__(self, label: str) -> None:
        self.label = label


class Boom(Exception):
    pass


class Late:
    pass


class BlockError(Exception):
    pass


class TeardownError(Exception):
    pass


def leaves(e: BaseException) -> list[BaseException]:
    if isinstance(e, BaseExceptionGroup):
        out = []
        for x in e.exceptions:
            out.extend(leaves(x))
        return out
    return [e]


HANDLERS = ("none", "true", "false", "retnone")
PLACES = ("F", "deeper", "task", "service", "after")
BODIES = ("ret", "raise", "forever", "instant", "ret-td", "raise-td", "hs", "spawn-late")  # hs: calls task_status.started() only after a gate


class C09(E1Check):
    id = "C09"
    assumptions = [
        "factory in a root or nested context; 1-2 spawns (quick) / up to 3 (thorough) through start_task / start_task_soon from five places",
        "task bodies: return at a gate, raise at a gate, wait for ever (ended through handle.cancel()), return without suspending",
        "when a task's exception is not swallowed the application goes down; the no-cancellation clauses are then not demanded",
    ]

    def rule(self, tier: str) -> str:
        return ("program = factory context kind x handler verdict x spawns (API, place, body); executions = all orders of spawn gates, body gates, "
                "handle.cancel() actions and the leave gate (+ preemptive injections within the bound); all_task_handles() is compared with "
                "the model's live set at every quiescent point and sandwiched at every harness step; distinct = distinct traces")

    def bounds(self, tier: str) -> dict:
        return {"spawns": 2 if tier == "quick" else 3,
                "deviation_bound": 0 if tier == "quick" else "2 for one spawn, 1 for the quick tier's pairs, 0 for all other pairs and for triples"}

    def units(self, tier: str, seed: int) -> list:
        progs = []
        spawn_opts = []
        for how in ("start_task", "soon", "soon-cancel"):
            for place in PLACES:
                for body in BODIES:
                    if how == "soon-cancel" and (body not in ("forever", "ret") or place not in ("F", "task")):
                        continue
                    if body == "hs" and (how != "start_task" or place not in ("F", "task")):
                        continue
                    if body == "spawn-late" and (how == "soon-cancel" or place != "F"):
                        continue  # spawn-late: at its gate the task spawns one more task (possibly while the owner is being torn down)
                    spawn_opts.append({"how": how, "place": place, "body": body})
        for fctx in ("root", "nested"):
            for handler in HANDLERS:
                for s in spawn_opts:
                    if s["place"] == "after" and fctx == "root":
                        continue
                    if s["body"] not in ("raise", "raise-td") and handler not in ("none", "true"):
                        continue
                    progs.append({"fctx": fctx, "handler": handler, "spawns": [s]})
                    if s["body"] in ("raise", "ret") and s["place"] == "F":
                        progs.append({"fctx": fctx, "handler": handler, "spawns": [s], "block_raises": True})
                    if s["body"] in ("ret", "raise", "forever") and s["place"] in ("F", "task", "deeper") and s["how"] != "soon-cancel":
                        for fstart in ("inner", "component"):
                            progs.append({"fctx": fctx, "handler": handler, "spawns": [s], "fstart": fstart})
                    if s["body"] in ("ret", "ret-td", "forever") and s["place"] in ("F", "task") and handler == "none" and s["how"] != "soon-cancel":
                        # another (asynchronous) teardown callback of the owning context, registered after the factory was started, fails
                        # while it is awaited: the factory's teardown step must still run and wait for the tasks
                        progs.append({"fctx": fctx, "handler": handler, "spawns": [s], "td_raises": True})
                pairs = list(itertools.product(spawn_opts, repeat=2))
                for a, b in pairs:
                    if fctx == "root" and "after" in (a["place"], b["place"]):
                        continue
                    if a["place"] == "after" and b["place"] != "after":
                        continue
                    has_raise = any(x["body"] in ("raise", "raise-td") for x in (a, b))
                    if not has_raise and handler != "none":
                        continue
                    td_kinds = ("ret-td", "raise-td")
                    if tier == "quick" and (a["body"] in td_kinds or b["body"] in td_kinds):
                        # own-context teardown bodies multiply the schedules: keep them next to simple partners from the factory context
                        if a["body"] in td_kinds and b["body"] in td_kinds:
                            continue
                        other = b if a["body"] in td_kinds else a
                        mine = a if a["body"] in td_kinds else b
                        if other["body"] not in ("instant", "ret") or other["place"] != "F" or mine["place"] != "F" or other["how"] != "soon" or mine["how"] == "soon-cancel":
                            continue
                    if "spawn-late" in (a["body"], b["body"]) and (tier == "quick" or a["body"] == b["body"]):
                        other = b if a["body"] == "spawn-late" else a
                        if other["body"] not in ("instant", "ret") or other["how"] != "soon" or other["place"] != "F":
                            continue
                    if tier == "quick" and "hs" in (a["body"], b["body"]):
                        # the handshake window next to simple partners
                        other = b if a["body"] == "hs" else a
                        if other["body"] not in ("instant", "ret", "forever", "hs") or other["how"] == "soon-cancel" or other["place"] not in ("F", "task"):
                            continue
                    if tier == "quick":
                        # reduced pairs: second spawn from F or task; keep all body/how combinations
                        if b["place"] not in ("F", "task", "after") or a["place"] in ("service",) and b["place"] == "task":
                            continue
                        if handler in ("retnone",) or (handler == "false" and a["how"] != b["how"]):
                            continue
                    progs.append({"fctx": fctx, "handler": handler, "spawns": [a, b]})
        # a task factory started while its owning context is already being torn down (from a teardown callback) is released and waited
        # for like any other
        for fctx in ("root", "nested"):
            for when in ("first", "last"):
                for body in ("ret", "forever", "instant"):
                    progs.append({"fctx": fctx, "handler": "none", "spawns": [{"how": "soon", "place": "F", "body": body}], "late_factory": when})
        # the task that is tearing down the (nested) owning context is cancelled while it waits for the factory's tasks: only the
        # waiting is interrupted, the tasks run on (they are still waited for by the root context) and see no cancellation
        for handler in ("none", "true"):
            for how in ("start_task", "soon"):
                for place in ("F", "task"):
                    for body in ("ret", "forever", "ret-td", "raise", "spawn-late"):
                        if body == "spawn-late" and place != "F" or handler == "true" and body != "raise":
                            continue
                        progs.append({"fctx": "nested", "handler": handler, "spawns": [{"how": how, "place": place, "body": body}], "owner_cancel": True})
        progs.append({"fctx": "nested", "handler": "none", "owner_cancel": True,
                      "spawns": [{"how": "soon", "place": "F", "body": "ret"}, {"how": "start_task", "place": "F", "body": "forever"}]})
        if tier == "thorough":
            for fctx in ("root", "nested"):
                for handler in ("none", "true"):
                    opts3 = [s for s in spawn_opts if s["place"] in ("F", "task") and s["body"] in ("ret", "raise", "forever")]
                    optsF = [s for s in opts3 if s["place"] == "F"]
                    for combo in itertools.product(optsF, optsF, opts3):
                        if len({(c["how"], c["body"]) for c in combo}) < 2:
                            continue
                        progs.append({"fctx": fctx, "handler": handler, "spawns": list(combo)})
        return progs

    _quick_set: Any = None

    def bound(self, tier: str, program: Any) -> int:
        if tier == "quick":
            return 0
        # thorough: singles with 2 preemptive injections, the quick tier's pairs with 1, every other pair and the triples with
        # quiescent choices only (measured: bound 1 on all pairs costs ~19 core-hours)
        if len(program["spawns"]) == 1:
            return 2
        if len(program["spawns"]) == 2:
            if self._quick_set is None:
                type(self)._quick_set = {repr(p) for p in self.units("quick", 0)}
            return 1 if repr(program) in self._quick_set else 0
        return 0

    def max_execs(self, tier: str, program: Any) -> int:
        return 2500 if tier == "quick" else 40000

    def hash_modes(self, tier: str, program: Any) -> tuple:
        return (0,)

    async def main(self, env: Any, program: dict) -> None:
        from asphalt.core import Context, current_context, start_background_task_factory

        log = env.log
        st = env.data["st"] = {"spawned": {}, "body_ended": set(), "waited": set(), "raised": {}, "handler_calls": [],
                               "factory": None, "failed_spawns": set(), "hfail": [], "helpers": {}, "own_td_pending": set(), "called_in": {}, "body_ctx": {},
                               "live": set(), "late_live": set()}
        spawns = program["spawns"]

        def _handler(exc: Exception) -> Any:
            st["handler_calls"].append(exc)
            log("handler", getattr(exc, "tag", "?"))
            return {"true": True, "false": False, "retnone": None}[program["handler"]]

        class _FalsyHandler:
            """an exception handler object that happens to be falsy (e.g. a collecting handler with __len__)"""

            def __len__(self) -> int:
                return 0

            def __call__(self, exc: Exception) -> Any:
                return _handler(exc)

        handler: Any = _FalsyHandler() if len(spawns) == 1 else _handler

        def check_handles(where: str, exact: bool) -> None:
            fac = st["factory"]
            if fac is None or st["hfail"]:
                return
            try:
                cur = fac.all_task_handles()
            except BaseException as e:  # noqa: BLE001
                st["hfail"].append(("handles", f"{where}: all_task_handles() raised {e!r}"))
                return
            byh = {id(h): i for i, h in st["spawned"].items()}
            got = set()
            snapshot = list(cur)
            cur.clear()  # the returned set is the caller's: emptying it must not change what the factory knows
            for h in snapshot:
                if id(h) in st["helpers"]:
                    continue
                got.add(byh.get(id(h), "unknown"))
            pending = set(st.get("pending_spawn", ()))
            must = {i for i in st["spawned"] if i not in st["body_ended"] or i in st["own_td_pending"]}
            may = {i for i in st["spawned"] if i not in st["waited"]} | pending
            n_unknown = sum(1 for h in snapshot if id(h) not in st["helpers"] and id(h) not in byh)
            # a task whose body is running while start_task() has not returned yet (start-up handshake) is a spawned task that has
            # not finished: its handle - not yet known to the harness - must be listed
            live_pending = {i for i in pending if i in st["live"]}
            if n_unknown < len(live_pending):
                st["hfail"].append(("handles", f"{where}: task(s) {sorted(live_pending)} are running (start_task() is waiting for their "
                                               f"task_status.started()) but all_task_handles() lists only {n_unknown} handle(s) besides {sorted(got - {'unknown'})}"))
                return
            if n_unknown > len(pending):
                if exact:
                    st["hfail"].append(("handles", f"{where}: all_task_handles() contains a handle of no running task (failed spawns: {sorted(st['failed_spawns'])})"))
                return
            if "unknown" in got and not pending:
                if exact:
                    st["hfail"].append(("handles", f"{where}: all_task_handles() contains a handle of no running task (failed spawns: {sorted(st['failed_spawns'])})"))
                return
            got.discard("unknown")
            if not must <= got or not got <= may:
                st["hfail"].append(("handles", f"{where}: all_task_handles() = {sorted(got)}, must contain {sorted(must)} and be within {sorted(may)}"))
            elif exact and got != must and not pending:
                st["hfail"].append(("handles", f"{where} (quiescent): all_task_handles() = {sorted(got)}, live tasks are {sorted(must)}"))

        env.quiescent_hooks.append(lambda: check_handles("quiescent point", True))

        def make_body(i: int, kind: str, expect: dict):
            async def body(task_status: Any = None) -> None:
                cur = current_context()
                st["live"].add(i)
                chain = []
                c = cur
                while c is not None:
                    chain.append(c)
                    c = c.parent
                ok = (expect["F"] in chain[1:] and all(x not in chain for x in expect["not"]) and cur is not expect["F"]
                      and all(x not in chain for x in st.get("not_parents", [])))
                st["body_ctx"][i] = cur
                snap = tuple(sorted(v.label for v in cur.get_resources(Res).values()))
                log("body+", i, ok, snap)
                check_handles(f"body {i} start", False)
                late = cur.get_resource_nowait(Late, "late", optional=True)
                if late is not None:
                    log("late-factory-visible", i)
                if kind in ("ret-td", "raise-td"):
                    # the task's own context needs time to tear down: the task has not finished before that
                    st["own_td_pending"].add(i)

                    async def own_td() -> None:
                        try:
                            await env.gate(f"owntd{i}")
                        finally:
                            st["own_td_pending"].discard(i)
                            st["live"].discard(i)
                            log("own-td-", i)

                    cur.add_teardown_callback(own_td)
                try:
                    if kind == "hs":
                        # start-up handshake: the task is running, start_task() has not returned yet
                        await env.gate(f"hs{i}")
                        check_handles(f"body {i} before started()", False)
                        log("started()", i)
                        task_status.started(("sv", i))
                        await env.gate(f"body{i}")
                    elif kind == "spawn-late":
                        await env.gate(f"body{i}")
                        # (the gate may be opened after the owning context has begun its teardown: the factory still accepts the
                        # task and the teardown waits for it as for any other)
                        async def late_child(i: int = i) -> None:
                            log("late+", i)
                            st["late_live"].add(i)
                            try:
                                await env.gate(f"late{i}")
                            except BaseException as e:
                                log("late!", i, type(e).__name__)
                                raise
                            finally:
                                st["late_live"].discard(i)
                                log("late-", i)

                        try:
                            hh2 = st["factory"].start_task_soon(late_child, f"late{i}")
                            st["helpers"][id(hh2)] = hh2
                            log("late-spawned", i)
                        except BaseException as e:  # noqa: BLE001 - refused (the factory has already shut down): nothing to wait for
                            log("late-refused", i, type(e).__name__)
                    elif kind in ("ret", "ret-td"):
                        await env.gate(f"body{i}")
                    elif kind in ("raise", "raise-td"):
                        await env.gate(f"body{i}")
                        exc = Boom(f"task {i}")
                        exc.tag = i  # type: ignore[attr-defined]
                        st["raised"][i] = exc
                        raise exc
                    elif kind == "forever":
                        await anyio.Event().wait()
                    # "instant": returns without suspending
                except BaseException as e:
                    log("body!", i, type(e).__name__)
                    raise
                finally:
                    st["body_ended"].add(i)
                    if i not in st["own_td_pending"]:
                        st["live"].discard(i)
                    log("body-", i)

            if kind == "hs":
                async def hs_body(*, task_status: Any) -> None:
                    await body(task_status)

                return hs_body

            async def plain_body() -> None:
                await body()

            return plain_body

        async def waiter(i: int, handle: Any) -> None:
            await handle.wait_finished()
            st["waited"].add(i)
            log("waited", i, i in st["body_ended"] and i not in st["own_td_pending"])
            check_handles(f"waiter {i}", False)

        async def do_spawn(i: int, factory: Any, expect: dict) -> None:
            s = spawns[i]
            body = make_body(i, s["body"], expect)
            st["pending_spawn"] = st.get("pending_spawn", set()) | {i}
            try:
                import functools

                # arguments are passed "via lambda" (documented) or functools.partial: not every task function is a coroutine function
                def called_in() -> Any:
                    # evaluated when the task callable is CALLED (the documented `lambda: func(args)` shape): already in the task's context
                    try:
                        c = current_context()
                    except Exception:  # noqa: BLE001
                        c = None
                    st["called_in"][i] = c

                fn = body if i % 3 == 0 or s["body"] == "hs" else (lambda: (called_in(), body())[1]) if i % 3 == 1 else functools.partial(body)
                if s["how"] == "start_task":
                    h = await factory.start_task(fn, f"t{i}")
                else:
                    h = factory.start_task_soon(fn, f"t{i}")
                    if s["how"] == "soon-cancel":
                        # cancel through the handle before the task has had a chance to run
                        log("cancel", i)
                        st.setdefault("cancelled", set()).add(i)
                        st.setdefault("cancelled_early", set()).add(i)
                        h.cancel()
            except BaseException as e:  # noqa: BLE001
                st["pending_spawn"].discard(i)
                st["failed_spawns"].add(i)
                log("spawn-failed", i, type(e).__name__)
                return
            st["spawned"][i] = h
            st["pending_spawn"].discard(i)
            log("spawned", i)
            if s["body"] == "hs" and getattr(h, "start_value", None) != ("sv", i):
                st["hfail"].append(("start-value", f"start_task() of task {i} returned a handle with start_value {getattr(h, 'start_value', '<unset>')!r}"))
            if s["body"] == "hs" and not any(ev == ("started()", i) for ev in env.trace):
                st["hfail"].append(("start-value", f"start_task() of task {i} returned before the task had called task_status.started()"))
            htg.start_soon(waiter, i, h)
            if s["body"] in ("forever", "ret", "ret-td", "raise-td") and s["how"] != "soon-cancel":
                def cancel(i: int = i, h: Any = h) -> None:
                    log("cancel", i)
                    st.setdefault("cancelled", set()).add(i)
                    h.cancel()

                env.action(f"cancel{i}", cancel)
            check_handles(f"after spawn {i}", False)

        async def start_late_factory() -> None:
            F = st["F"]
            log("lf-start")
            f2 = await F.start_background_task_factory()

            async def lf_body() -> None:
                log("lf+")
                try:
                    await env.gate("lfbody")
                except BaseException as e:
                    log("lf!", type(e).__name__)
                    raise
                finally:
                    log("lf-")

            f2.start_task_soon(lf_body, "lf")
            log("lf-spawned")

        async def f_block(root: Any) -> None:
            oscope = anyio.CancelScope()
            try:
                with oscope:
                    await f_block0(root, oscope)
            except RuntimeError as e:
                # the interrupted teardown leaves the owner while the contexts of its tasks are still open, which the owner reports;
                # whoever interrupted it deals with that report - the tasks themselves are not to be touched
                if not (program.get("owner_cancel") and oscope.cancel_called and "still has" in str(e)):
                    raise
                log("owner-reported-children")
            log("f-left")

        async def f_block0(root: Any, oscope: Any) -> None:
            async with Context() if program["fctx"] == "nested" else _Null(root) as maybe:
                F = maybe if program["fctx"] == "nested" else root
                F.add_resource(Res("before"), "before")
                eh = handler if program["handler"] != "none" else None
                inner_ctxs: list = []
                st["F"] = F
                if program.get("late_factory") == "first":
                    F.add_teardown_callback(start_late_factory)  # registered first: runs after the main factory has been waited for
                if program.get("fstart") == "inner":
                    # started ON the owning context while a deeper, short-lived context is the current one
                    async with Context() as shortlived:
                        shortlived.add_resource(Res("inner"), "inner")
                        inner_ctxs.append(shortlived)
                        factory = await F.start_background_task_factory(exception_handler=eh)
                    log("inner-left")
                elif program.get("fstart") == "component":
                    # started from a component's start() through the module-level shortcut (the current context is a ComponentContext)
                    from asphalt.core import Component, start_component

                    box: dict = {}

                    class FComp(Component):
                        async def start(self) -> None:
                            inner_ctxs.append(current_context())
                            box["factory"] = await start_background_task_factory(exception_handler=eh)

                    await start_component(FComp, {}, timeout=None)
                    factory = box["factory"]
                elif len(spawns) % 2:
                    factory = await F.start_background_task_factory(exception_handler=eh)
                else:
                    factory = await start_background_task_factory(exception_handler=eh)
                st["not_parents"] = inner_ctxs
                st["factory"] = factory
                st["snapshot"] = tuple(sorted(v.label for v in F.get_resources(Res).values()))
                F.add_resource(Res("after"), "after")
                F.add_resource_factory(lambda: Late(), "late", types=Late)  # registered after the task factory started
                if program.get("td_raises"):
                    async def failing_td() -> None:
                        log("td-raises")
                        await anyio.lowlevel.checkpoint()
                        raise TeardownError("an unrelated teardown callback fails while it is awaited")

                    F.add_teardown_callback(failing_td)
                st["F"] = F
                if program.get("late_factory") == "last":
                    F.add_teardown_callback(start_late_factory)  # registered last: runs before the main factory is told to finish
                helpers_go: dict[int, anyio.Event] = {}
                helpers_done: dict[int, anyio.Event] = {}

                async def service_spawner(i: int) -> None:
                    await helpers_go[i].wait()
                    await do_spawn(i, factory, {"F": F, "not": [current_context()]})
                    helpers_done[i].set()

                async def task_spawner(i: int) -> None:
                    await helpers_go[i].wait()
                    await do_spawn(i, factory, {"F": F, "not": [current_context()]})
                    helpers_done[i].set()

                for i, s in enumerate(spawns):
                    if s["place"] == "service":
                        helpers_go[i], helpers_done[i] = anyio.Event(), anyio.Event()
                        await F.start_service_task(lambda i=i: service_spawner(i), f"spawner{i}")
                    elif s["place"] == "task":
                        helpers_go[i], helpers_done[i] = anyio.Event(), anyio.Event()
                        hh = factory.start_task_soon(lambda i=i: task_spawner(i), f"helper{i}")
                        st["helpers"][id(hh)] = hh
                for i, s in enumerate(spawns):
                    if s["place"] == "after":
                        continue
                    await env.gate(f"spawn{i}")
                    if s["place"] == "F":
                        await do_spawn(i, factory, {"F": F, "not": []})
                    elif s["place"] == "deeper":
                        async with Context() as deeper:
                            deeper.add_resource(Res("deeper"), "deeper")
                            await do_spawn(i, factory, {"F": F, "not": [deeper]})
                    else:
                        helpers_go[i].set()
                        await helpers_done[i].wait()
                # helper tasks that were never asked to spawn must be released
                await env.gate("leave")
                for i, ev in helpers_go.items():
                    ev.set()
                log("leaving")
                st["leaving_idx"] = len(env.trace)
                if program.get("owner_cancel"):
                    def cancel_owner() -> None:
                        log("cancel-owner")
                        oscope.cancel()

                    env.action("cancel-owner", cancel_owner)
                if program.get("block_raises"):
                    raise BlockError("the block itself fails")

        class _Null:
            def __init__(self, v: Any) -> None:
                self.v = v

            async def __aenter__(self) -> Any:
                return self.v

            async def __aexit__(self, *a: Any) -> bool:
                return False

        async with anyio.create_task_group() as htg:
            try:
                async with Context() as root:
                    root.add_resource(Res("pre"), "pre")
                    await f_block(root)
                    for i, s in enumerate(spawns):
                        if s["place"] == "after":
                            await do_spawn(i, st["factory"], {"F": st["F"], "not": []})
                            check_handles(f"after failed spawn {i}", True)
                st["exc"] = None
            except BaseException as e:  # noqa: BLE001
                st["exc"] = e
                log("block-exc", type(e).__name__)
            log("root-left")
            for a in list(env.loop.actions):
                env.drop_action(a)
            check_handles("after the root block", True)
            await env.gate("after")
            htg.cancel_scope.cancel()
        log("end")

    def verdict(self, env: Any, program: Any, outcome: str) -> None:
        super().verdict(env, program, outcome)
        if outcome != "done":
            return
        tr = env.trace
        fail = env.fail
        st = env.data["st"]
        for k, m in st["hfail"]:
            fail(k, m)
        spawns = program["spawns"]
        unswallowed = [i for i, exc in st["raised"].items() if program["handler"] in ("none", "false", "retnone")]
        went_down = bool(unswallowed)
        root_left = next(i for i, ev in enumerate(tr) if ev[0] == "root-left")
        late = [ev for ev in tr[root_left + 1:] if ev[0] in ("body+", "body-", "body!", "handler", "own-td-")]
        if late:
            fail("still-running", f"task events after the root block was left: {late[:3]}")
        # context of the tasks
        for ev in tr:
            if ev[0] == "body+":
                if ev[2] is not True:
                    fail("context", f"task {ev[1]} does not run in a fresh context inheriting from the factory's context (or inherits from its spawner)")
                if ev[3] != st.get("snapshot"):
                    fail("context", f"task {ev[1]} sees resources {ev[3]}, the factory was started with {st.get('snapshot')}")
        for i, c in st["called_in"].items():
            if i in st["body_ctx"] and c is not st["body_ctx"][i]:
                fail("context", f"the callable of task {i} was called outside the task's own context (in {c!r})")
        for ev in tr:
            if ev[0] == "late-factory-visible":
                fail("context", f"task {ev[1]} can use a resource factory that was added to the owning context after the task factory had been started")
        # waiters
        for i in st["spawned"]:
            w = next((ev for ev in tr if ev[0] == "waited" and ev[1] == i), None)
            if w is None:
                fail("wait", f"wait_finished() of task {i} never returned")
            elif w[2] is not True:
                fail("wait", f"wait_finished() of task {i} returned before the task (its body and its own context) had finished")
        # handler
        for i, exc in st["raised"].items():
            calls = [c for c in st["handler_calls"] if c is exc]
            if program["handler"] == "none":
                continue
            if len(calls) > 1:
                fail("handler", f"exception handler was called {len(calls)} times for the exception of task {i}")
            elif len(calls) == 0 and not (went_down and spawns[i]["body"] == "raise-td"):
                # (a task whose own context is still tearing down when the application goes down because of another task's
                # exception is overtaken by that cancellation: its exception then legitimately never reaches the handler)
                fail("handler", f"exception handler was called 0 times for the exception of task {i}")
        stray = [c for c in st["handler_calls"] if not any(c is e for e in st["raised"].values())]
        if stray:
            fail("handler", f"exception handler was called with {stray!r}, which no task raised")
        out = st.get("exc")
        # (when the application is already going down because of an unswallowed task exception, the teardown of the owning context
        # is itself cancelled and the teardown's exception group replaces the block's exception by design - C01 covers that rule;
        # the property only demands that the TASK's exception comes out, which is checked below)
        if program.get("block_raises") and not went_down and (out is None or not any(isinstance(x, BlockError) for x in leaves(out))) and ("leaving",) in tr:
            fail("swallowed", f"the block raised BlockError but the root block ended with {out!r}")
        if went_down:
            # every unswallowed exception whose task ended after the block had begun to leave must still come out
            late_raisers = [i for i in unswallowed if program.get("block_raises")]
            for i in late_raisers:
                if out is None or not any(x is st["raised"][i] for x in leaves(out)):
                    fail("swallowed", f"the exception of task {i} was not swallowed by the handler but is missing from what the root block raised: {out!r}")
            if out is None or not any(x is st["raised"][i] for x in leaves(out) for i in unswallowed):
                fail("swallowed", f"task exception(s) {[st['raised'][i] for i in unswallowed]!r} not swallowed by the handler but the root block ended with {out!r}")
            return
        if program.get("td_raises") and out is not None and all(isinstance(x, TeardownError) for x in leaves(out)):
            pass  # the failing teardown callback's own exception comes out; nothing else may
        elif out is not None and not (program.get("block_raises") and all(isinstance(x, BlockError) for x in leaves(out))):
            fail("unexpected-error", f"every task exception was swallowed but the root block raised {out!r}")
        # cancellation: exactly the cancelled handles' bodies see it
        cancelled = st.get("cancelled", set())
        for ev in tr:
            if ev[0] == "body!" and ev[2] == "CancelledError" and ev[1] not in cancelled:
                fail("cancel", f"task {ev[1]} saw a cancellation although only {sorted(cancelled)} were cancelled through their handles")
        for i in cancelled:
            ci = next(j for j, ev in enumerate(tr) if ev[0] == "cancel" and ev[1] == i)
            be = next((j for j, ev in enumerate(tr) if ev[0] == "body-" and ev[1] == i), None)
            if be is not None and be > ci and not any(ev[0] == "body!" and ev[1] == i and ev[2] == "CancelledError" for ev in tr) and spawns[i]["body"] == "forever":
                fail("cancel", f"handle.cancel() of task {i} did not cancel it")
        for i in st.get("cancelled_early", set()):
            # anyio delivers a cancellation issued before the task's first step on the loop iteration after the task first blocks, and
            # not at all to a task whose wait has meanwhile completed: a gate opened by an INJECTED event inside that window lets the
            # task finish on its own, which is a benign race (the task has ended), not a lost cancellation
            if any(ev[:3] == ("env", "gate", f"body{i}") and j in env.injected for j, ev in enumerate(tr)):
                continue
            if any(ev[:3] == ("env", "gate", f"body{i}") for ev in tr):
                fail("cancel", f"task {i} was cancelled through its handle right after start_task_soon() but kept running until its gate was opened")
            if not any(ev[0] == "body!" and ev[1] == i and ev[2] == "CancelledError" for ev in tr) and any(ev[0] == "body+" and ev[1] == i for ev in tr):
                fail("cancel", f"task {i} was cancelled through its handle right after start_task_soon() but its body never saw a cancellation")
        # a task spawned by a running task - also while the owner is being torn down - is waited for like any other, never cancelled
        for ev in tr:
            if ev[0] == "late!" and ev[2] == "CancelledError":
                fail("teardown-wait", f"the task spawned late by task {ev[1]} was cancelled (nobody cancelled it through its handle)")
        # (when the task tearing down the nested owner was cancelled the wait was interrupted: the root context then waits for the tasks)
        left_ev = "f-left" if program["fctx"] == "nested" and ("cancel-owner",) not in tr else "root-left"
        if ("lf-spawned",) in tr:
            fli = next((j for j, e2 in enumerate(tr) if e2[0] == left_ev), None)
            le = next((j for j, e2 in enumerate(tr) if e2[0] == "lf-"), None)
            if any(e2[0] == "lf!" and e2[1] == "CancelledError" for e2 in tr):
                fail("teardown-wait", "the task of a factory that was started during the owner's teardown was cancelled")
            elif fli is not None and (le is None or le > fli):
                fail("teardown-wait", "the owning context was left although the task of a factory that was started during its teardown had not finished")
        elif program.get("late_factory"):
            fail("harness", "the late factory was never started")
        for ev in tr:
            if ev[0] == "late-spawned":
                fli = next((j for j, e2 in enumerate(tr) if e2[0] == left_ev), None)
                le = next((j for j, e2 in enumerate(tr) if e2[0] == "late-" and e2[1] == ev[1]), None)
                if fli is not None and (le is None or le > fli):
                    fail("teardown-wait", f"the factory's owning context was left although the task spawned late by task {ev[1]} had not finished")
        # teardown waits for all bodies
        fl = next((j for j, ev in enumerate(tr) if ev[0] == left_ev), None)
        if fl is not None:
            for i in st["spawned"]:
                be = next((j for j, ev in enumerate(tr) if ev[0] == "body-" and ev[1] == i), None)
                if be is None or be > fl:
                    fail("teardown-wait", f"the factory's owning context was left although task {i} had not finished")


CHECK = C09()
