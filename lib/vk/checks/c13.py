"""C13 - context lifecycle: usable only from entry to end of teardown, entered once (engine E2)."""

from __future__ import annotations

from ..bfs import CtxCheck
from ..ctxuniverse import Universe


class C13(CtxCheck):
    id = "C13"
    aspects = {"lifecycle"}
    max_ctx = 2
    probe_apis = ("nowait", "async")
    assumptions = [
        "<= 2 contexts (root + child or second root); every API operation is tried in every lifecycle state",
        "'inside a teardown callback' is reached through a first-registered teardown callback that serves driver commands",
        "'changes nothing' after a denied call is judged by get_resources, resource_added listeners and the teardown callbacks that later run",
    ]

    def rule(self, tier: str) -> str:
        return ("BFS over histories of enter / leave (clean, exception, cancellation, raising teardown) / re-enter and the five context "
                "operations applied in the states never-entered, open, inside a teardown callback and closed; compared with a four-state "
                "reference machine; states = distinct canonical (model, impl) pairs")

    def bounds(self, tier: str) -> dict:
        return {"depth_beyond_seed": self.depth(tier), "max_contexts": self.max_ctx}

    def depth(self, tier: str) -> int:
        return 4 if tier == "quick" else 5

    def seeds(self, tier: str) -> list[list]:
        out = []
        for hook in (False, True):
            out.append([("new", -1, False)])
            out.append([("new", -1, False), ("enter", 0, hook)])
            out.append([("new", -1, False), ("enter", 0, hook), ("new", 0, False)])
            out.append([("new", -1, False), ("enter", 0, hook), ("new", 0, False), ("enter", 1, hook)])
            out.append([("new", -1, False), ("enter", 0, hook), ("new", 0, True), ("enter", 1, False)])
            for how in ("clean", "exc") + (() if hook else ("cancel",)):
                out.append([("new", -1, False), ("enter", 0, hook), ("leave", 0, how)])
                out.append([("new", -1, False), ("enter", 0, False), ("new", 0, False), ("enter", 1, hook), ("leave", 1, how)])
        uniq = []
        for h in out:
            if h not in uniq:
                uniq.append(h)
        return uniq

    # ---- scenario units (deterministic, outside the BFS) ---------------------------------------------------
    def units(self, tier: str, seed: int) -> list:
        return (super().units(tier, seed) + [{"orphan": kind, "gc": g} for kind in ("root", "nested") for g in (False, True)]
                + [{"orphan": "cross-task", "gc": False}, {"orphan": "comp-parent", "gc": False}])

    def work(self, unit: dict, tier: str) -> dict:
        if "orphan" in unit:
            return self.orphan_unit(unit)
        return super().work(unit, tier)

    def replay(self, rec: dict):  # type: ignore[no-untyped-def]
        if "orphan" in rec.get("program", {}):
            s = self.orphan_unit(rec["program"])
            for v in s["violations"]:
                for f in v["fails"]:
                    print("FAIL", f[0], "-", f[1])
            print(f"VIOLATION property=C13 replay={rec.get('_path', '')}" if s["violations"] else "no violation on this tree")
            return 1 if s["violations"] else 0
        return super().replay(rec)

    def orphan_unit(self, unit: dict) -> dict:
        """A child context is entered from the parent by a short-lived task that ends without leaving it; nothing else refers to the
        child (optionally a garbage collection runs); leaving the parent must still be reported as an error."""
        import gc

        import anyio

        from ..explore import new_summary

        fails: list = []

        async def main() -> None:
            from asphalt.core import Context

            async def enter_and_forget() -> None:
                child = Context()
                await child.__aenter__()

            async def parent_block() -> None:
                async with Context():
                    async with anyio.create_task_group() as tg:
                        tg.start_soon(enter_and_forget)
                    if unit["gc"]:
                        gc.collect()

            if unit["orphan"] == "comp-parent":
                # the explicit parent is what current_context() gave inside a component's start() (kept after start-up): the child is a
                # child of the real context, and leaving that while the child is open is reported like any other
                from asphalt.core import Component, current_context, start_component

                box: dict = {}

                class Keeper(Component):
                    async def start(self) -> None:
                        box["ctx"] = current_context()

                child = None
                try:
                    async with Context() as root:
                        await start_component(Keeper, {}, timeout=None)
                        child = Context(box["ctx"])
                        if child.parent is not root:
                            fails.append(("lifecycle", f"a context created with the context a component saw as explicit parent has parent {child.parent!r}, not the real context"))
                        await child.__aenter__()
                    fails.append(("lifecycle", "a context was left while a child created with a component's context as explicit parent was still open: no error"))
                except RuntimeError:
                    pass
                except BaseException as e:  # noqa: BLE001
                    if not (isinstance(e, BaseExceptionGroup) and e.subgroup(RuntimeError) is not None):
                        fails.append(("lifecycle", f"leaving the parent of a still open child raised {e!r} instead of RuntimeError"))
                return
            if unit["orphan"] == "cross-task":
                # a (non-root) context entered by one task and left by another one: however that ends, afterwards the context is closed
                async with Context():
                    sess = Context()
                    entered = anyio.Event()

                    async def opener() -> None:
                        await sess.__aenter__()
                        entered.set()

                    async with anyio.create_task_group() as tg:
                        tg.start_soon(opener)
                        await entered.wait()
                    try:
                        await sess.__aexit__(None, None, None)
                    except BaseException:  # noqa: BLE001 - (which error, if any, is not the point)
                        pass
                    if not sess.closed:
                        fails.append(("lifecycle", "after the block of a context had been left (from another task) `closed` is false"))
                    for what, fn in (("add_resource", lambda: sess.add_resource(object(), "late")), ("add_teardown_callback", lambda: sess.add_teardown_callback(lambda: None)),
                                     ("get_resource_nowait", lambda: sess.get_resource_nowait(int, optional=True))):
                        try:
                            fn()
                            fails.append(("lifecycle", f"{what}() was accepted by a context whose block has been left"))
                        except RuntimeError:
                            pass
                        except BaseException as e:  # noqa: BLE001
                            fails.append(("lifecycle", f"{what}() on a left context raised {e!r} instead of RuntimeError"))
                return
            try:
                if unit["orphan"] == "nested":
                    async with Context():
                        try:
                            await parent_block()
                            fails.append(("lifecycle", "a context was left while a child entered from it (by a task that has ended) was still open: no error"))
                        except RuntimeError:
                            pass
                else:
                    await parent_block()
                    fails.append(("lifecycle", "a root context was left while a child entered from it (by a task that has ended) was still open: no error"))
            except RuntimeError:
                pass
            except BaseException as e:  # noqa: BLE001
                if not (isinstance(e, BaseExceptionGroup) and e.subgroup(RuntimeError) is not None):
                    fails.append(("lifecycle", f"leaving the parent of a still open child raised {e!r} instead of RuntimeError"))

        anyio.run(main)
        s = new_summary()
        s["evaluations"] = s["transitions"] = s["states"] = s["distinct"] = s["nontrivial"] = 1
        s["outcomes"] = {"done": 1}
        if fails:
            s["violations"].append({"keys": ["lifecycle"], "fails": [list(f) for f in fails], "program": dict(unit), "choices": [], "trace": [], "outcome": "done"})
            s["keyhist"] = {"lifecycle": 1}
        return s

    def api_ops(self, u: Universe, idx: int) -> list[tuple]:
        n = len(u.hist)
        return [
            ("op", idx, ("add", "Ad", True, f"v:c{idx}:Ad:{n}", "m")),
            ("op", idx, ("add", "Bd", False, f"v:c{idx}:Bd:{n}", "m")),
            ("op", idx, ("addf", "Ax", "async", f"f:c{idx}:Ax:{n}", "m")),
            ("op", idx, ("get", "nowait", "A", "default", False)),
            ("op", idx, ("get", "async", "A", "x", False)),
            ("op", idx, ("get", "nowait", "B", "default", True)),
            ("op", idx, ("addtd", f"t:c{idx}:{n}")),
        ]

    def enabled(self, u: Universe) -> list[tuple]:
        ops: list[tuple] = []
        if len(u.models) < self.max_ctx:
            for m in u.models:
                if m.state == "open":
                    ops.append(("new", m.idx, False))
        nops = sum(1 for op in u.hist if op[0] == "op")
        for m in u.models:
            if u.ctxs[m.idx] is None:
                continue
            if m.state == "inactive":
                ops.append(("enter", m.idx, False))
                ops.append(("enter", m.idx, True))
                if u.ctxs[m.idx].parent is None and not any(op[0] == "enter" and op[2] == "fault" for op in u.hist):
                    ops.append(("enter", m.idx, "fault"))
            elif m.state == "open":
                hook = getattr(m, "hook", False)
                ops.append(("leave", m.idx, "clean"))
                ops.append(("leave", m.idx, "exc"))
                if not hook:
                    ops.append(("leave", m.idx, "cancel"))
                ops.append(("op", m.idx, ("reenter",)))
                if not getattr(m, "td_raises", False):
                    ops.append(("op", m.idx, ("addtd-raise", f"r:c{m.idx}")))
            elif m.state == "closing":
                ops.append(("resume", m.idx))
                ops.append(("op", m.idx, ("reenter",)))
            elif m.state == "closed":
                ops.append(("enter", m.idx, False))
            if nops < 4 and (m.state != "closing" or u.in_teardown[m.idx]):
                ops.extend(self.api_ops(u, m.idx))
        return ops


CHECK = C13()
