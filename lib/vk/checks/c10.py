"""C10 - events reach exactly the active subscribers, exactly once, in dispatch order (engine E1)."""

from __future__ import annotations

import itertools
import re
import warnings
from dataclasses import dataclass
from typing import Any

import anyio

from ..explore import E1Check

FILTERS = ("all", "even", "nonepass", "none", "falsy-even")


class HE(Exception):
    pass


def passes(flt: str, n: int) -> bool:
    # ("toggle" is a STATEFUL filter, used by wait_event programs only: it accepts on its 1st, 3rd, ... call - consulted once per
    # event, it accepts the first event it is shown)
    return {"all": True, "none": True, "even": n % 2 == 0, "nonepass": False, "falsy-even": n % 2 == 0, "toggle": True}[flt]


class C10(E1Check):
    id = "C10"
    assumptions = [
        "2 instances x 2 signals; 1-2 subscribers (3 in thorough) with distinct queue sizes 1/2/3 so that SignalQueueFull warnings are attributable",
        "1-2 dispatcher tasks with numbered events, one optional wait_event task; a subscriber that would block for ever once all dispatchers "
        "are done is cancelled (that is its 'cancellation while blocked' exit)",
        "overflow is judged by the sandwich 'warning => backlog >= max_queue_size, backlog > max_queue_size => warning' (backlog = accepted - pulled), "
        "which holds for both the buffered and the direct hand-off path of the memory stream",
    ]

    def rule(self, tier: str) -> str:
        return ("program = subscribers (signals, filter, queue size, number of receives, way of leaving) x dispatch plan x optional wait_event task; "
                "executions = all interleavings of the gate-delimited steps of all scripts (+ preemptive injections in thorough); each execution is "
                "compared with a per-subscriber list model; distinct = distinct traces")

    def bounds(self, tier: str) -> dict:
        return {"subscribers": 2 if tier == "quick" else 3, "events": "3-4", "deviation_bound": 0 if tier == "quick" else 1}

    def units(self, tier: str, seed: int) -> list:
        progs = []
        plans = {
            "one-disp": [[("i0", "a", 1), ("i0", "a", 2), ("i0", "b", 3), ("i1", "a", 4)]],
            "burst": [[("i0", "a", 1, False), ("i0", "a", 2, False), ("i0", "a", 4, False), ("i0", "b", 6, False)]],
            "two-disp": [[("i0", "a", 1), ("i0", "b", 2)], [("i0", "a", 3), ("i1", "a", 4)]],
            # the dispatcher waits once, then dispatches without yielding: the first events do not pass an "even" filter
            "gated-burst": [[("i0", "a", 1, True), ("i0", "a", 3, False), ("i0", "a", 4, False), ("i0", "a", 6, False)]],
        }
        sigsets = {"a0": [("i0", "a")], "a0b0": [("i0", "a"), ("i0", "b")], "a0a1": [("i0", "a"), ("i1", "a")]}
        subs1 = []
        for ss in sigsets:
            for flt in FILTERS:
                for k in (0, 1, 2, 3):
                    for leave in ("exit", "exc", "cancel"):
                        if leave == "cancel" and k == 0:
                            continue
                        subs1.append({"sigs": ss, "filter": flt, "k": k, "leave": leave})
        for plan in plans:
            for s in subs1:
                if plan == "gated-burst" and (s["sigs"] != "a0" or s["filter"] not in ("even", "all") or s["k"] == 0):
                    continue
                for q in (1, 2):
                    progs.append({"plan": plan, "subs": [dict(s, q=q)], "wait": None})
                if s["sigs"] == "a0" and s["filter"] in ("all", "even") and plan in ("one-disp", "burst", "two-disp") and s["k"] >= 1:
                    # an unbuffered subscription: an event is accepted exactly when the consumer is waiting for it
                    progs.append({"plan": plan, "subs": [dict(s, q=0)], "wait": None})
        # two subscribers
        light = [s for s in subs1 if s["k"] in (1, 2) and s["filter"] in ("all", "even") and s["sigs"] in ("a0", "a0b0")]
        for plan in ("one-disp", "burst"):
            for a, b in itertools.product(light, repeat=2):
                if tier == "quick" and (a["leave"] == "cancel" and b["leave"] == "cancel" or a["k"] + b["k"] > 3):
                    continue
                progs.append({"plan": plan, "subs": [dict(a, q=1), dict(b, q=2)], "wait": None})
        # wait_event
        for plan in plans:
            for flt in ("all", "even", "nonepass", "falsy-even", "toggle"):
                for ss in sigsets:
                    progs.append({"plan": plan, "subs": [], "wait": {"sigs": ss, "filter": flt}})
                    progs.append({"plan": plan, "subs": [{"sigs": "a0", "filter": "all", "k": 1, "leave": "exit", "q": 1}], "wait": {"sigs": ss, "filter": flt}})
        if tier == "thorough":
            for a, b, c in itertools.product([s for s in light if s["k"] == 1 and s["leave"] != "cancel"], repeat=3):
                progs.append({"plan": "burst", "subs": [dict(a, q=1), dict(b, q=2), dict(c, q=3)], "wait": None})
        for p in progs:
            p["plans"] = plans[p["plan"]]
            p["sigsets"] = sigsets
        progs.append({"reuse": True})
        progs.append({"equal_owners": True})
        progs.append({"scenario": "copy"})
        progs.append({"scenario": "owner-gone"})
        progs.append({"scenario": "redispatch"})
        progs.append({"scenario": "refused-list"})
        progs.append({"scenario": "slots"})
        return progs

    def work(self, unit: Any, tier: str) -> dict:
        if isinstance(unit, dict) and unit.get("scenario"):
            return self.scenario_unit(unit)
        if isinstance(unit, dict) and unit.get("reuse"):
            return self.reuse_unit()
        if isinstance(unit, dict) and unit.get("equal_owners"):
            return self.equal_owners_unit()
        return super().work(unit, tier)

    def scenario_unit(self, unit: dict) -> dict:
        """copy: a shallow copy of an owner (made after its signals were first used) is a dispatching instance of its own;
        owner-gone: events dispatched through a kept bound signal after its owner has been collected still reach the subscribers."""
        import copy as _copy
        import gc

        from ..explore import new_summary

        fails: list = []

        async def main() -> None:
            from asphalt.core import Event, Signal, wait_event

            @dataclass
            class Ev(Event):
                n: int

            class Src:
                a = Signal(Ev)

            async def consume(stream: Any, sink: list) -> None:
                async for ev in stream:
                    sink.append(ev)

            if unit["scenario"] == "refused-list":
                # a stream over [bound signal, class-level signal] is refused (UnboundSignal): the bound signal must not keep anything of it
                from asphalt.core import UnboundSignal, stream_events

                src = Src()
                try:
                    async with stream_events([src.a, Src.a]):
                        fails.append(("refused-list", "a stream over a list containing a class-level signal was opened"))
                except UnboundSignal:
                    pass
                got: list = []
                async with src.a.stream_events() as st_:
                    async with anyio.create_task_group() as tg:
                        tg.start_soon(consume, st_, got)
                        await anyio.wait_all_tasks_blocked()
                        try:
                            src.a.dispatch(Ev(1))
                        except BaseException as e:  # noqa: BLE001
                            fails.append(("dispatch-raised", f"dispatch after a refused multi-signal stream raised {e!r}"))
                        await anyio.wait_all_tasks_blocked()
                        tg.cancel_scope.cancel()
                if [e.n for e in got] != [1]:
                    fails.append(("delivery", f"a subscriber that arrived after a refused multi-signal stream received {[e.n for e in got]}, expected [1]"))
            elif unit["scenario"] == "slots":
                # subscribers come and go in every order: S0 in, S1 in, S0 out, S2 in - S1 and S2 both keep receiving
                import contextlib

                for order in ("0in 1in 0out 2in", "0in 1in 2in 1out 3in 0out 4in"):
                    src = Src()
                    sinks: dict = {}
                    scopes: dict = {}

                    async def subscriber(k: str, scope: Any, started: Any) -> None:
                        with scope:
                            async with src.a.stream_events() as stream:
                                started.set()
                                async for ev in stream:
                                    sinks[k].append(ev)

                    async with anyio.create_task_group() as tg:
                        for step in order.split():
                            k = step[0]
                            if step.endswith("in"):
                                scopes[k] = anyio.CancelScope()
                                sinks[k] = []
                                started = anyio.Event()
                                tg.start_soon(subscriber, k, scopes[k], started)
                                await started.wait()
                                await anyio.wait_all_tasks_blocked()
                            else:
                                scopes.pop(k).cancel()
                                await anyio.wait_all_tasks_blocked()
                        try:
                            src.a.dispatch(Ev(9))
                        except BaseException as e:  # noqa: BLE001
                            fails.append(("dispatch-raised", f"dispatch raised {e!r}"))
                        await anyio.wait_all_tasks_blocked()
                        for k in sorted(scopes):
                            if [e.n for e in sinks[k]] != [9]:
                                fails.append(("delivery", f"history '{order}': active subscriber S{k} received {[e.n for e in sinks[k]]}, expected [9]"))
                        tg.cancel_scope.cancel()
            elif unit["scenario"] == "redispatch":
                # one event object relayed: dispatched again on another signal / another instance, it is stamped by THAT dispatch
                class Two:
                    a = Signal(Ev)
                    b = Signal(Ev)

                s1, s2 = Two(), Two()
                got2: list = []
                gotb: list = []
                async with s2.a.stream_events() as st2, s1.b.stream_events() as stb:
                    async with anyio.create_task_group() as tg:
                        tg.start_soon(consume, st2, got2)
                        tg.start_soon(consume, stb, gotb)
                        await anyio.wait_all_tasks_blocked()
                        ev = Ev(1)
                        s1.a.dispatch(ev)
                        t1 = ev.time
                        s2.a.dispatch(ev)
                        stamp2 = (ev.source, ev.topic)
                        s1.b.dispatch(ev)
                        stamp3 = (ev.source, ev.topic)
                        await anyio.wait_all_tasks_blocked()
                        tg.cancel_scope.cancel()
                if stamp2[0] is not s2 or stamp2[1] != "a" or stamp3[0] is not s1 or stamp3[1] != "b" or not isinstance(ev.time, float) or ev.time < t1:
                    fails.append(("stamp", f"an event dispatched again on another channel carried source/topic {stamp2!r} then {stamp3!r}"))
                if len(got2) != 1 or len(gotb) != 1:
                    fails.append(("redispatch", f"subscribers of the second / third channel received {len(got2)} / {len(gotb)} events"))
            elif unit["scenario"] == "copy":
                src = Src()
                first = src.a
                got_o: list = []
                got_c: list = []
                async with src.a.stream_events() as so:
                    cp = _copy.copy(src)
                    if cp.a is first:
                        fails.append(("copy", "a shallow copy of an owner shares the original's bound signal"))
                    async with cp.a.stream_events() as sc:
                        async with anyio.create_task_group() as tg:
                            tg.start_soon(consume, so, got_o)
                            tg.start_soon(consume, sc, got_c)
                            await anyio.wait_all_tasks_blocked()
                            e1, e2 = Ev(1), Ev(2)
                            cp.a.dispatch(e1)
                            src.a.dispatch(e2)
                            await anyio.wait_all_tasks_blocked()
                            tg.cancel_scope.cancel()
                if e1.source is not cp or e2.source is not src:
                    fails.append(("copy", f"events dispatched on the copy / the original carry sources {e1.source!r} / {e2.source!r}"))
                if [e.n for e in got_c] != [1] or [e.n for e in got_o] != [2]:
                    fails.append(("copy", f"the copy's subscriber received {[e.n for e in got_c]} (expected [1]), the original's {[e.n for e in got_o]} (expected [2])"))
            else:
                src = Src()
                sig = src.a
                got: list = []
                waited: list = []

                async def wait_one() -> None:
                    waited.append((await wait_event([sig])).n)

                async with sig.stream_events() as st_:
                    async with anyio.create_task_group() as tg:
                        tg.start_soon(consume, st_, got)
                        tg.start_soon(wait_one)
                        await anyio.wait_all_tasks_blocked()
                        del src
                        gc.collect()
                        sig.dispatch(Ev(7))
                        await anyio.wait_all_tasks_blocked()
                        tg.cancel_scope.cancel()
                if [e.n for e in got] != [7] or waited != [7]:
                    fails.append(("owner-gone", f"an event dispatched after the owner had been collected: stream received {[e.n for e in got]}, wait_event returned {waited}"))

        try:
            anyio.run(main)
        except BaseException as e:  # noqa: BLE001
            fails.append((unit["scenario"], f"scenario raised {e!r}"))
        s = new_summary()
        s["evaluations"] = s["transitions"] = s["states"] = s["distinct"] = s["nontrivial"] = 1
        s["outcomes"] = {"done": 1}
        if fails:
            s["violations"].append({"keys": sorted({f[0] for f in fails}), "fails": [list(f) for f in fails], "program": dict(unit), "choices": [], "trace": [],
                                    "outcome": "done"})
            s["keyhist"] = {fails[0][0]: 1}
        return s

    def equal_owners_unit(self) -> dict:
        from dataclasses import dataclass as _dc

        from ..explore import Chooser, new_summary, reset_determinism, run_main_asyncio
        from ..reuse import equal_owners_case
        from ..vloop import Env

        env = Env(Chooser([]), 0)
        reset_determinism(0)
        out: dict = {}

        async def main() -> None:
            from asphalt.core import Event, Signal

            class Ev(Event):
                pass

            @_dc(frozen=True)
            class Src:
                key: int = 7

            Src.sig = Signal(Ev)  # type: ignore[attr-defined]
            Src.sig.__set_name__(Src, "sig")  # type: ignore[attr-defined]

            async def publish(owner: Any) -> Any:
                ev = Ev()
                owner.sig.dispatch(ev)
                return ev

            out["fails"] = await equal_owners_case(Src, lambda o: o.sig, publish)

        run_main_asyncio(env, main)
        s = new_summary()
        s["evaluations"] = s["transitions"] = s["states"] = s["distinct"] = s["nontrivial"] = 1
        s["outcomes"] = {"done": 1}
        if out["fails"]:
            s["violations"].append({"keys": ["equal-owners"], "fails": [list(f) for f in out["fails"]], "program": {"equal_owners": True},
                                    "choices": [], "trace": [], "outcome": "done"})
            s["keyhist"] = {"equal-owners": 1}
        return s

    def reuse_unit(self) -> dict:
        """A subscriber outlives its owner; a new owner allocated at the same address publishes: the event must not reach the old
        owner's subscriber and must carry the new owner as source (run in a fresh interpreter, see vk/reuse.py)."""
        from ..reuse import summary_for

        return summary_for("signal", "C10")

    def replay(self, rec: dict) -> Any:
        if rec.get("program", {}).get("scenario"):
            s = self.scenario_unit(rec["program"])
            for v in s["violations"]:
                for f in v["fails"]:
                    print("FAIL", f[0], "-", f[1])
            print(f"VIOLATION property=C10 replay={rec.get('_path', '')}" if s["violations"] else "no violation on this tree")
            return 1 if s["violations"] else 0
        if rec.get("program", {}).get("equal_owners"):
            s = self.equal_owners_unit()
            for v in s["violations"]:
                for f in v["fails"]:
                    print("FAIL", f[0], "-", f[1])
            print(f"VIOLATION property=C10 replay={rec.get('_path', '')}" if s["violations"] else "no violation on this tree")
            return 1 if s["violations"] else 0
        if rec.get("program", {}).get("reuse"):
            s = self.reuse_unit()
            for v in s["violations"]:
                for f in v["fails"]:
                    print("FAIL", f[0], "-", f[1])
            if s["violations"]:
                print(f"VIOLATION property=C10 replay={rec.get('_path', '')}")
                return 1
            print("no violation on this tree")
            return 0
        return super().replay(rec)

    def bound(self, tier: str, program: Any) -> int:
        return 0 if tier == "quick" else (1 if len(program["subs"]) <= 1 else 0)

    def max_execs(self, tier: str, program: Any) -> int:
        return 4000 if tier == "quick" else 60000

    def hash_modes(self, tier: str, program: Any) -> tuple:
        return (0,)

    async def main(self, env: Any, program: dict) -> None:
        from asphalt.core import Event, Signal, SignalQueueFull, stream_events, wait_event

        @dataclass
        class Ev(Event):
            n: int

        class Src:
            a = Signal(Ev)
            b = Signal(Ev)

            def __init__(self, name: str) -> None:
                self.name = name

            def __len__(self) -> int:
                return 0  # an event source may well be an (empty, hence falsy) container

        log = env.log
        insts = {"i0": Src("i0"), "i1": Src("i1")}
        st = env.data["st"] = {"insts": insts, "pulled": {}, "yielded": {}, "events": {}, "dispatchers_left": len(program["plans"]),
                               "blocked": {}, "bad_stamp": []}
        sigsets = program["sigsets"]

        def sig(i: str, a: str) -> Any:
            return getattr(insts[i], a)

        def make_filter(idx: Any, flt: str):
            if flt == "none":
                return None

            calls = {"n": 0}

            def f(ev: Any) -> bool:
                st["pulled"][idx] = st["pulled"].get(idx, 0) + 1
                log("pulled", idx, ev.n)
                if flt == "toggle":
                    calls["n"] += 1
                    return calls["n"] % 2 == 1
                return passes(flt, ev.n)

            if flt == "falsy-even":
                class FalsyFilter:
                    """a filter object that happens to be falsy (e.g. an empty allow-list with __len__)"""

                    def __len__(self) -> int:
                        return 0

                    def __call__(self, ev: Any) -> Any:
                        # "truthy value" contract: the verdict is a truthy / falsy NON-bool (like a re.match result or a list)
                        return [ev.n] if f(ev) else []

                return FalsyFilter()
            return f

        def rescue_if_stuck(scope: Any, who: Any) -> None:
            pass

        def rescue_at_quiescence() -> None:
            # nothing will ever be dispatched again and the loop has nothing left to run: whoever is blocked in a
            # receive now is blocked for ever; cancel it (that is its "cancelled while blocked" exit)
            if st["dispatchers_left"] == 0:
                for who, (scope, blocked) in list(st["blocked"].items()):
                    if blocked and not scope.cancel_called:
                        log("rescue", who)
                        scope.cancel()

        env.quiescent_hooks.append(rescue_at_quiescence)

        async def subscriber(i: int, spec: dict) -> None:
            signals = [sig(*x) for x in sigsets[spec["sigs"]]]
            st["yielded"][i] = []
            try:
                with anyio.CancelScope() as scope:
                    st["blocked"][i] = (scope, False)
                    async with stream_events(signals, make_filter(i, spec["filter"]), max_queue_size=spec["q"]) as stream:
                        log("sub-enter", i)
                        for k in range(spec["k"]):
                            await env.gate(f"s{i}.{k}")
                            log("sub-recv", i)
                            st["blocked"][i] = (scope, True)
                            if spec["leave"] == "cancel" and k == spec["k"] - 1:
                                env.action(f"cancel-s{i}", lambda: (log("cancel", i), scope.cancel()))
                            rescue_if_stuck(scope, i)
                            try:
                                ev = await stream.__anext__()
                            finally:
                                st["blocked"][i] = (scope, False)
                                env.drop_action(f"cancel-s{i}")
                            st["yielded"][i].append(ev)
                            if ev.source is not insts.get(getattr(ev.source, "name", None)) or not isinstance(ev.time, float):
                                st["bad_stamp"].append((i, ev.n))
                            log("sub-got", i, ev.n, getattr(ev.source, "name", None), ev.topic)
                        await env.gate(f"s{i}.leave")
                        log("sub-leaving", i)
                        if spec["leave"] == "exc":
                            raise HE("leave")
                if scope.cancelled_caught:
                    log("sub-cancelled", i)
            except HE:
                pass
            log("sub-left", i)

        async def dispatcher(d: int, plan: list) -> None:
            for item in plan:
                i, a, n = item[:3]
                if len(item) < 4 or item[3]:
                    await env.gate(f"d{d}.{n}")
                ev = Ev(n)
                st["events"][n] = ev
                ev0 = env.env_events
                with warnings.catch_warnings(record=True) as wlist:
                    warnings.simplefilter("always")
                    log("disp+", n, i, a)
                    try:
                        sig(i, a).dispatch(ev)
                        err = None
                    except BaseException as e:  # noqa: BLE001
                        err = e
                sizes = []
                for w in wlist:
                    if issubclass(w.category, SignalQueueFull):
                        m = re.search(r"\((\d+)\)", str(w.message))
                        if m is None:
                            # the wording of the warning is not part of the property: fall back to unattributed counting
                            st["unattributed"] = True
                        sizes.append(int(m.group(1)) if m else -1)
                log("disp-", n, tuple(sorted(sizes)), type(err).__name__ if err else None, env.env_events - ev0)
                if ev.source is not insts[i] or ev.topic != a or not isinstance(getattr(ev, "time", None), float):
                    st["bad_stamp"].append(("dispatch", n))
            st["dispatchers_left"] -= 1

        async def waiter(spec: dict) -> None:
            signals = [sig(*x) for x in sigsets[spec["sigs"]]]
            await env.gate("w.start")
            with anyio.CancelScope() as scope:
                st["blocked"]["w"] = (scope, True)
                log("wait+")
                rescue_if_stuck(scope, "w")
                if len(signals) == 1:
                    ev = await signals[0].wait_event(make_filter("w", spec["filter"]))  # the method form
                else:
                    ev = await wait_event(signals, make_filter("w", spec["filter"]))
                st["blocked"]["w"] = (scope, False)
                log("wait-", ev.n)
            st["blocked"]["w"] = (scope, False)

        async with anyio.create_task_group() as tg:
            for i, spec in enumerate(program["subs"]):
                tg.start_soon(subscriber, i, spec)
            for d, plan in enumerate(program["plans"]):
                tg.start_soon(dispatcher, d, plan)
            if program["wait"]:
                tg.start_soon(waiter, program["wait"])
        log("end")

    def verdict(self, env: Any, program: Any, outcome: str) -> None:
        super().verdict(env, program, outcome)
        if outcome != "done":
            return
        tr = env.trace
        fail = env.fail
        st = env.data["st"]
        sigsets = program["sigsets"]
        for b in st["bad_stamp"]:
            fail("stamp", f"event with wrong source/topic/time: {b}")
        disp = [(j, ev) for j, ev in enumerate(tr) if ev[0] == "disp+"]
        dend = {ev[1]: ev for ev in tr if ev[0] == "disp-"}
        for n, ev in dend.items():
            if ev[3] is not None:
                fail("dispatch-raised", f"dispatch of event {n} raised {ev[3]}")
            if ev[4] != 0:
                fail("dispatch-blocked", f"dispatch of event {n} consumed {ev[4]} environment events")
        for i, spec in enumerate(program["subs"]):
            enter = next((j for j, ev in enumerate(tr) if ev[0] == "sub-enter" and ev[1] == i), None)
            if enter is None:
                fail("no-subscribe", f"subscriber {i} never entered its stream")
                continue
            leaving = next((j for j, ev in enumerate(tr) if ev[0] in ("sub-leaving", "sub-cancelled", "sub-left") and ev[1] == i), len(tr))
            # a cancelled subscriber stops being active somewhere between the cancellation and its 'sub-cancelled' event
            cancel_at = next((j for j, ev in enumerate(tr) if ev[0] in ("cancel", "rescue") and ev[1] == i), None)
            mine = set(map(tuple, sigsets[spec["sigs"]]))
            accepted: list[int] = []
            pulled_idx = [j for j, ev in enumerate(tr) if ev[0] == "pulled" and ev[1] == i]
            unsure = False
            for j, ev in disp:
                n, inst, attr = ev[1], ev[2], ev[3]
                if (inst, attr) not in mine or j < enter or j > leaving:
                    # not this subscriber's event: it must not produce a warning of this subscriber's size
                    continue
                in_limbo = cancel_at is not None and j > cancel_at
                warned = spec["q"] in dend[n][2]
                if st.get("unattributed"):
                    # warnings cannot be attributed to subscribers: derive the loss from the backlog model alone
                    backlog0 = len(accepted) - sum(1 for x in pulled_idx if x < j) if spec["filter"] != "none" else 0
                    warned = backlog0 > spec["q"] or (backlog0 == spec["q"] and len(dend[n][2]) > 0)
                    unsure = True
                if spec["filter"] != "none" and not st.get("unattributed"):
                    backlog = len(accepted) - sum(1 for x in pulled_idx if x < j)
                    # the consumer is parked in its receive with nothing buffered: the event is handed to it directly, whatever the queue size
                    # "parked" must be certain: the subscriber began (or resumed, after a filtered-out event) its receive, then the loop
                    # went quiescent (an environment event that was NOT injected - anyio's receive() yields once before it parks), and
                    # nothing has been dispatched to it since
                    la = next((x for x in range(j - 1, -1, -1) if tr[x][0] in ("sub-recv", "sub-got", "pulled") and tr[x][1] == i), None)
                    parked = False
                    if la is not None and tr[la][0] in ("sub-recv", "pulled"):
                        qe = next((x for x in range(la + 1, j) if tr[x][0] == "env" and x not in env.injected), None)
                        if qe is not None and not any(tr[x][0] == "disp+" and (tr[x][2], tr[x][3]) in mine for x in range(qe, j)):
                            parked = True
                    if warned and backlog == 0 and parked and not in_limbo:
                        fail("overflow", f"subscriber {i} (queue {spec['q']}) lost event {n} although it was waiting for an event with nothing buffered")
                    if warned and backlog < spec["q"] and not in_limbo:
                        fail("overflow", f"subscriber {i} (queue {spec['q']}) lost event {n} with a backlog of only {backlog}")
                    if not warned and backlog > spec["q"] and not in_limbo:
                        fail("overflow", f"subscriber {i} (queue {spec['q']}) accepted event {n} with a backlog of {backlog}")
                if in_limbo:
                    unsure = True
                if not warned:
                    accepted.append(n)
            # warnings of this subscriber's size for events that are not its own
            for j, ev in disp:
                n, inst, attr = ev[1], ev[2], ev[3]
                if st.get("unattributed"):
                    break
                if ((inst, attr) not in mine or j < enter or j > leaving) and spec["q"] in dend[n][2]:
                    others = [k for k, s2 in enumerate(program["subs"]) if k != i and s2["q"] == spec["q"]]
                    if not others:
                        fail("overflow", f"a SignalQueueFull warning for queue size {spec['q']} was issued for event {n}, which subscriber {i} is not subscribed to (or not at that time)")
            got = [ev.n for ev in st["yielded"].get(i, [])]
            exp_all = [n for n in accepted if passes(spec["filter"], n)]
            if len(set(got)) != len(got):
                fail("duplicate", f"subscriber {i} was yielded {got}")
            if unsure:
                # events dispatched while the subscriber was being cancelled may or may not have been accepted
                it = iter(exp_all)
                if not all(any(x == g for x in it) for g in got):
                    fail("delivery", f"subscriber {i} was yielded {got}, not a subsequence of {exp_all}")
            elif got != exp_all[:len(got)]:
                fail("delivery", f"subscriber {i} (signals {spec['sigs']}, filter {spec['filter']}, queue {spec['q']}) was yielded {got}; "
                                 f"accepted filter-passing events in dispatch order: {exp_all}")
            elif len(got) < spec["k"] and len(got) < len(exp_all) and cancel_at is None:
                fail("delivery", f"subscriber {i} received only {got} of {exp_all} although it asked for {spec['k']}")
            elif cancel_at is not None and len(got) < spec["k"] and len(got) < len(exp_all):
                # it was blocked although an accepted passing event was available before the cancellation
                avail_before = [n for n in exp_all if next(j for j, e2 in disp if e2[1] == n) < cancel_at]
                rescued = any(ev[0] == "rescue" and ev[1] == i for ev in tr)
                if rescued and len(got) < len(avail_before):
                    fail("delivery", f"subscriber {i} was still blocked after all dispatches although {avail_before[len(got):]} had been accepted for it")
            for ev in st["yielded"].get(i, []):
                pass
            for ev2 in tr:
                if ev2[0] == "sub-got" and ev2[1] == i:
                    src_ok = any((ev2[3], ev2[4]) == s for s in mine)
                    if not src_ok:
                        fail("stamp", f"subscriber {i} got event {ev2[2]} stamped source={ev2[3]} topic={ev2[4]}, not one of its signals {sorted(mine)}")
        if program["wait"]:
            w = program["wait"]
            wp = next((j for j, ev in enumerate(tr) if ev[0] == "wait+"), None)
            wm = next((ev for ev in tr if ev[0] == "wait-"), None)
            if wp is not None:
                mine = set(map(tuple, sigsets[w["sigs"]]))
                cands = [ev[1] for j, ev in disp if j > wp and (ev[2], ev[3]) in mine and passes(w["filter"], ev[1])]
                resc = next((j for j, ev in enumerate(tr) if ev[0] == "rescue" and ev[1] == "w"), None)
                if wm is None:
                    if cands and (resc is None or any(j < resc for j, ev in disp if ev[1] == cands[0])):
                        fail("wait-event", f"wait_event never returned although event {cands[0]} passed its filter after the call began")
                elif not cands or wm[1] != cands[0]:
                    fail("wait-event", f"wait_event returned event {wm[1]}, the first passing event after the call began was {cands[:1]}")


CHECK = C10()
