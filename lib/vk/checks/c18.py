"""C18 - resource_added announces every publication exactly once, on the right context (engine E2)."""

from __future__ import annotations

from ..bfs import APIS, CtxCheck
from ..ctxuniverse import KEYS, LOOKUPS, Universe
from .c03 import BAD, nth


class C18(CtxCheck):
    id = "C18"
    aspects = {"events"}
    max_ctx = 3
    probe_apis = ("nowait", "async", "inj_async")
    assumptions = [
        "<= 3 contexts (parent, child/sibling, unrelated root), a listener subscribed to every context from its creation",
        "for a generation in which one of the factory's types was already taken the event may carry the factory's types or the subset registered",
    ]

    def rule(self, tier: str) -> str:
        return ("BFS over histories of succeeding and failing add / factory / lookup operations across a context tree with a "
                "stream_events listener on every context; after every step the per-context event lists (types, name, description, "
                "is_factory) are compared with the model; states = distinct canonical (model, impl) pairs")

    def bounds(self, tier: str) -> dict:
        return {"depth_beyond_seed": self.depth(tier), "max_contexts": self.max_ctx}

    def depth(self, tier: str) -> int:
        return 3 if tier == "quick" else 4

    def seeds(self, tier: str) -> list[list]:
        root = [("new", -1, False), ("enter", 0, False)]
        out = []
        for second in (("new", 0, False), ("new", 0, True), ("new", -1, False)):
            base = root + [second, ("enter", 1, False)]
            out.append(base)
            for k, fk in (("Ad", "sync"), ("ABd", "sync"), ("BAd", "async")):
                out.append(root + [("op", 0, ("addf", k, fk, f"f:c0:{k}:0", "m")), second, ("enter", 1, False)])
                out.append(base + [("op", 1, ("addf", k, fk, f"f:c1:{k}:0", "m"))])
            out.append(base + [("op", 0, ("add", "Bd", False, "v:c0:Bd:0", "m")), ("op", 0, ("addf", "ABd", "sync", "f:c0:ABd:0", "m"))])
        # the parent has already generated its own product (sync and async path) before any other context exists: a context created
        # afterwards must announce its own first generation
        for k, fk, api, t in (("Ad", "sync", "nowait", "A"), ("BAd", "async", "async", "B"), ("BAd", "async", "inj_async", "A"), ("ABd", "sync", "inj_sync", "B")):
            out.append(root + [("op", 0, ("addf", k, fk, f"f:c0:{k}:0", "m")), ("op", 0, ("get", api, t, "default", False))])
        return out

    def _units0(self, tier: str, seed: int) -> list:
        return super().units(tier, seed) + [{"reuse": True}] + [{"stalled": q, "order": o} for q in (1, 2) for o in ("stalled-first", "stalled-last")] + [{"equal_contexts": True}, {"multi_context": True}]

    def _work0(self, unit: dict, tier: str) -> dict:
        if unit.get("reuse"):
            return self.reuse_unit()
        if "stalled" in unit:
            return self.stalled_unit(unit)
        if unit.get("equal_contexts"):
            return self.equal_contexts_unit()
        if unit.get("multi_context"):
            return self.multi_context_unit()
        return super().work(unit, tier)

    def multi_context_unit(self) -> dict:
        """ONE listener attached to the resource_added signals of several contexts through a single stream_events / wait_event call:
        every publication on each of them is announced to it once, with the right source."""
        import anyio

        from ..explore import new_summary

        fails: list = []

        async def main() -> None:
            from asphalt.core import Context, stream_events, wait_event

            class R:
                pass

            got: list = []
            first: list = []
            async with Context() as root, Context() as child, Context() as grand:
                ctxs = [("root", root), ("child", child), ("grand", grand)]
                started = anyio.Event()

                async def listen() -> None:
                    async with stream_events([c.resource_added for _n, c in ctxs]) as stream:
                        started.set()
                        async for ev in stream:
                            got.append((next(n for n, c in ctxs if c is ev.source), ev.resource_name, ev.is_factory))

                async def wait_first() -> None:
                    ev = await wait_event([c.resource_added for _n, c in ctxs])
                    first.append(ev.resource_name)

                async with anyio.create_task_group() as tg:
                    tg.start_soon(listen)
                    tg.start_soon(wait_first)
                    await started.wait()
                    await anyio.wait_all_tasks_blocked()
                    root.add_resource(R(), "r1")
                    child.add_resource_factory(lambda: R(), "f1", types=R)
                    grand.add_resource(R(), "g1")
                    child.get_resource_nowait(R, "f1")
                    root.add_resource(R(), "r2")
                    await anyio.wait_all_tasks_blocked()
                    tg.cancel_scope.cancel()
            want = [("root", "r1", False), ("child", "f1", True), ("grand", "g1", False), ("child", "f1", False), ("root", "r2", False)]
            if got != want:
                fails.append(("events", f"one listener over root / child / grandchild received {got}, expected {want}"))
            if first != ["r1"]:
                fails.append(("events", f"wait_event over the three contexts returned {first}, the first publication was 'r1' on the root"))

        try:
            anyio.run(main)
        except BaseException as e:  # noqa: BLE001
            fails.append(("events", f"scenario raised {e!r}"))
        s = new_summary()
        s["evaluations"] = s["transitions"] = s["states"] = s["distinct"] = s["nontrivial"] = 1
        s["outcomes"] = {"done": 1}
        if fails:
            s["violations"].append({"keys": ["events"], "fails": [list(f) for f in fails], "program": {"multi_context": True}, "choices": [], "trace": [],
                                    "outcome": "done"})
            s["keyhist"] = {"events": 1}
        return s

    def equal_contexts_unit(self) -> dict:
        """A Context subclass with value equality: an outer and a nested context that compare equal are still two contexts, and
        what is published in one is announced there and on no other context."""
        from typing import Any

        from ..explore import Chooser, new_summary, reset_determinism, run_main_asyncio
        from ..reuse import equal_owners_case
        from ..vloop import Env

        env = Env(Chooser([]), 0)
        reset_determinism(0)
        out: dict = {}

        async def main() -> None:
            from contextlib import AsyncExitStack

            from asphalt.core import Context

            class RequestContext(Context):
                request_id = 42

                def __eq__(self, other: object) -> bool:
                    return isinstance(other, RequestContext) and other.request_id == self.request_id

                def __hash__(self) -> int:
                    return hash(self.request_id)

            import anyio

            fails: list = []
            got: dict = {"outer": [], "inner": []}

            async def listen(ctx: Any, sink: list, started: anyio.Event) -> None:
                async with ctx.resource_added.stream_events() as stream:
                    started.set()
                    async for ev in stream:
                        sink.append(ev)

            async with Context():
                outer = RequestContext()
                async with outer:
                    inner = RequestContext()
                    if inner.resource_added is outer.resource_added:
                        fails.append(("events", "two distinct contexts that compare equal share one resource_added signal"))
                    async with inner:
                        async with anyio.create_task_group() as tg:
                            for c, k in ((outer, "outer"), (inner, "inner")):
                                st = anyio.Event()
                                tg.start_soon(listen, c, got[k], st)
                                await st.wait()
                            inner.add_resource(object(), "fresh")
                            for _ in range(5):
                                await anyio.lowlevel.checkpoint()
                            tg.cancel_scope.cancel()
            if got["outer"]:
                fails.append(("events", "a publication in the inner context was announced on the (equal but different) outer context"))
            if len(got["inner"]) != 1 or got["inner"][0].source is not inner:
                fails.append(("events", f"the inner context's listener received {[(e.resource_name, e.source) for e in got['inner']]}"))
            out["fails"] = fails

        run_main_asyncio(env, main)
        s = new_summary()
        s["evaluations"] = s["transitions"] = s["states"] = s["distinct"] = s["nontrivial"] = 1
        s["outcomes"] = {"done": 1}
        if out["fails"]:
            s["violations"].append({"keys": ["events"], "fails": [["events", f[1]] for f in out["fails"]], "program": {"equal_contexts": True},
                                    "choices": [], "trace": [], "outcome": "done"})
            s["keyhist"] = {"events": 1}
        return s

    def stalled_unit(self, unit: dict) -> dict:
        """Two listeners on one context; one of them does not drain its (small) queue during a burst of publications.  Every
        successful publication must still be announced exactly once to the other listener."""
        from typing import Any

        import anyio

        from ..explore import Chooser, new_summary, reset_determinism, run_main_asyncio
        from ..vloop import Env

        env = Env(Chooser([]), 0)
        reset_determinism(0)
        got: list = []

        async def main() -> None:
            import warnings

            from asphalt.core import Context

            async with Context() as ctx:
                async def good(started: anyio.Event) -> None:
                    async with ctx.resource_added.stream_events() as stream:
                        started.set()
                        async for ev in stream:
                            got.append((ev.resource_name, ev.is_factory))

                async def stalled(started: anyio.Event) -> None:
                    async with ctx.resource_added.stream_events(max_queue_size=unit["stalled"]):
                        started.set()
                        await anyio.Event().wait()  # never reads

                async with anyio.create_task_group() as tg:
                    order = [stalled, good] if unit["order"] == "stalled-first" else [good, stalled]
                    for fn in order:
                        ev = anyio.Event()
                        tg.start_soon(fn, ev)
                        await ev.wait()
                    with warnings.catch_warnings():
                        warnings.simplefilter("ignore")
                        ctx.add_resource(1, "a")
                        ctx.add_resource(2.0, "b")
                        ctx.add_resource_factory(lambda: "x", "c", types=str)
                        ctx.get_resource_nowait(str, "c")
                        ctx.add_resource(b"4", "d")
                    for _ in range(20):
                        await anyio.lowlevel.checkpoint()
                    tg.cancel_scope.cancel()

        run_main_asyncio(env, main)
        s = new_summary()
        s["evaluations"] = s["transitions"] = s["states"] = s["distinct"] = s["nontrivial"] = 1
        s["outcomes"] = {"done": 1}
        exp = [("a", False), ("b", False), ("c", True), ("c", False), ("d", False)]
        if got != exp:
            s["violations"].append({"keys": ["events"], "fails": [["events", f"with another listener stalled (queue size {unit['stalled']}), the listener received {got}, expected {exp}"]],
                                    "program": dict(unit), "choices": [], "trace": [], "outcome": "done"})
            s["keyhist"] = {"events": 1}
        return s

    def reuse_unit(self) -> dict:
        """A subscriber outlives its owner; a new owner allocated at the same address publishes: the event must not reach the old
        owner's subscriber and must carry the new owner as source (run in a fresh interpreter, see vk/reuse.py)."""
        from ..reuse import summary_for

        return summary_for("context", "C18")

    def _replay0(self, rec: dict):  # type: ignore[no-untyped-def]
        if "stalled" in rec.get("program", {}) or rec.get("program", {}).get("equal_contexts") or rec.get("program", {}).get("multi_context"):
            s = (self.stalled_unit(rec["program"]) if "stalled" in rec["program"] else self.multi_context_unit() if rec["program"].get("multi_context")
                 else self.equal_contexts_unit())
            for v in s["violations"]:
                for f in v["fails"]:
                    print("FAIL", f[0], "-", f[1])
            print(f"VIOLATION property=C18 replay={rec.get('_path', '')}" if s["violations"] else "no violation on this tree")
            return 1 if s["violations"] else 0
        if rec.get("program", {}).get("reuse"):
            s = self.reuse_unit()
            for v in s["violations"]:
                for f in v["fails"]:
                    print("FAIL", f[0], "-", f[1])
            if s["violations"]:
                print(f"VIOLATION property=C18 replay={rec.get('_path', '')}")
                return 1
            print("no violation on this tree")
            return 0
        return super().replay(rec)

    def units(self, tier: str, seed: int) -> list:
        from .c04race import two_type_units

        from . import reent

        from . import compadds

        # racing lookups of a SYNCHRONOUS factory through the asynchronous API: still one generation, one event
        sync_races = [{"race": {"async": False, "types": t, "own_child": False, "tasks": [[a, "A", pre], [b, "A" if t == 1 else "B", pre]]}}
                      for t in (1, 2) for a, b in (("method", "method"), ("shortcut", "inject"), ("inject", "method")) for pre in (False, True)]
        from .c04race import adder_units

        return self._units0(tier, seed) + two_type_units(tier) + reent.units(tier) + compadds.units(tier) + sync_races + adder_units(tier)

    def work(self, unit: dict, tier: str) -> dict:
        if "compadds" in unit:
            from . import compadds

            return compadds.work(unit, {"events"})
        if "reent" in unit:
            from . import reent

            return reent.work(unit, {"events"})
        if "race" in unit:
            from .c04race import RACE

            s = RACE.work(unit, tier)
            # only the clause that belongs to this property
            s["violations"] = [v for v in s["violations"] if "events" in v["keys"]]
            s["keyhist"] = {k: n for k, n in s.get("keyhist", {}).items() if k == "events"}
            return s
        return self._work0(unit, tier)

    def replay(self, rec: dict):  # type: ignore[no-untyped-def]
        if "compadds" in rec.get("program", {}):
            from . import compadds

            return compadds.replay(rec, self.id, {"events"})
        if "reent" in rec.get("program", {}):
            from . import reent

            return reent.replay(rec, self.id, {"events"})
        if "race" in rec.get("program", {}):
            from .c04race import RACE

            return RACE.replay(rec)
        return self._replay0(rec)

    def enabled(self, u: Universe) -> list[tuple]:
        ops: list[tuple] = []
        if len(u.models) < self.max_ctx:
            for m in u.models:
                if m.state == "open":
                    ops.append(("new", m.idx, False))
        for m in u.models:
            if m.state == "inactive":
                ops.append(("enter", m.idx, False))
            elif m.state == "open":
                for k in ("Ad", "Bd", "ABd", "Ax"):
                    n = nth(u, m.idx, "add", k)
                    if n < 2:
                        ops.append(("op", m.idx, ("add", k, k == "Bd", f"v:c{m.idx}:{k}:{n}", "s" if k == "Ax" else "m")))
                for k, fk in (("Ad", "sync"), ("ABd", "sync"), ("BAd", "async")):
                    n = nth(u, m.idx, "addf", k)
                    if n < 2:
                        ops.append(("op", m.idx, ("addf", k, fk, f"f:c{m.idx}:{k}:{n}", "m")))
                nb = sum(1 for op in u.hist if op[0] == "op" and op[2][0] == "bad")
                if nb < 1:
                    for form in BAD:
                        ops.append(("op", m.idx, ("bad", form, f"bad:{form}:{nb}")))
                for tname, name in LOOKUPS:
                    if (tname, name) not in m.res and (tname, name) in m.fac:
                        f = m.fac[(tname, name)]
                        for api in APIS:
                            if f["async"] and api in ("nowait", "s_nowait", "inj_sync"):
                                continue
                            ops.append(("op", m.idx, ("get", api, tname, name, False)))
        return ops


CHECK = C18()
