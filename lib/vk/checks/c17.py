"""C17 - merge_config is a pure, right-biased deep merge (engine E3: exhaustive small-scope inputs).

Universe: all dictionaries over a key set K whose values are leaves from L or dictionaries of the
next level, up to depth d.  Every ordered pair (original, overrides) of the universe, plus None for
either argument, is run through the real ``merge_config`` and an independently written reference.
"""

from __future__ import annotations

import itertools
from typing import Any

ABSENT = object()


def universe(keys: tuple, leaves: tuple, depth: int) -> list[Any]:
    """Specs of all dicts of nesting depth <= depth; a spec is a tuple of (key, valuespec) pairs where
    valuespec is ("L", i) or ("D", spec)."""
    level: list[tuple] = [()]  # depth 0: only the empty dict
    for _ in range(depth):
        vals: list[Any] = [ABSENT] + [("L", i) for i in range(len(leaves))] + [("D", s) for s in level]
        nxt = []
        for combo in itertools.product(vals, repeat=len(keys)):
            nxt.append(tuple((k, v) for k, v in zip(keys, combo) if v is not ABSENT))
        level = nxt
    return level


def build(spec: tuple, leaves: tuple, cls: type = dict) -> dict:
    d: dict = cls()
    for k, v in spec:
        if v[0] == "L":
            leaf = leaves[v[1]]
            d[k] = list(leaf) if isinstance(leaf, list) else leaf  # (lists are rebuilt so that every dictionary owns its values)
        else:
            d[k] = build(v[1], leaves, cls)
    return d


def orig_class(universe_name: str) -> type:
    """In the "odict" universes the ORIGINAL side is built from a dict subclass (collections.OrderedDict) at every level: a
    dictionary is a dictionary, subclass or not."""
    import collections

    return collections.OrderedDict if universe_name.startswith("odict") else dict


def ref_merge(a: Any, b: Any) -> dict:
    """Reference written from the statement (not from the code)."""
    out: dict = {}
    a = {} if a is None else a
    b = {} if b is None else b
    for k in a:
        if k in b:
            if isinstance(a[k], dict) and isinstance(b[k], dict):
                out[k] = ref_merge(a[k], b[k])
            else:
                out[k] = b[k]
        else:
            out[k] = a[k]
    for k in b:
        if k not in a:
            out[k] = b[k]
    return out


def strict_eq(x: Any, y: Any) -> bool:
    if type(x) is not type(y):
        return False
    if isinstance(x, dict):
        return x.keys() == y.keys() and all(strict_eq(x[k], y[k]) for k in x)
    if isinstance(x, list):
        return len(x) == len(y) and all(strict_eq(a, b) for a, b in zip(x, y))
    return x == y


UNIVERSES = {
    # name: (keys, leaves, depth)
    "ab-d2": (("a", "b"), (1, None), 2),
    "dotted-d2": (("a", "a.b"), (None, "s"), 2),
    "lists-d2": (("a", "b"), ([1], "s"), 2),
    "abc-d1": (("a", "b", "a.b"), (1, None, [1], "s"), 1),
    "ab-d3": (("a", "b"), (1,), 3),
    "a-d4": (("a",), (1, None), 4),
    "falsy-d2": (("a", "b"), (0, ""), 2),
    "emptylist-d2": (("a", "b"), ([], False), 2),
    "odict-d2": (("a", "b"), (1, None), 2),
    "eqtypes-d2": (("a", "b"), (1, True), 2),  # leaves that compare equal but are different values: the override's one is kept
    "nonstr-d2": ((8080, None), (1, "s"), 2),  # keys need not be strings (a port number, None): sections under them merge like any other
}
QUICK = ["ab-d2", "dotted-d2", "lists-d2", "abc-d1", "a-d4", "falsy-d2", "emptylist-d2", "odict-d2", "eqtypes-d2", "nonstr-d2"]
THOROUGH = QUICK + ["ab-d3"]


class C17:
    id = "C17"
    engine = "E3"
    level = "model_checking"
    backends = ["none (pure function)"]
    assumptions = [
        "leaf values are drawn from {1, None, [1], 's'}; keys from {a, b, a.b}; nesting depth <= 4",
        "aliasing of un-merged nested values between result and inputs is allowed (only modification is forbidden)",
    ]

    def rule(self, tier: str) -> str:
        return (
            "every ordered pair (original, overrides) of every listed universe of nested dictionaries, plus None "
            "for either or both arguments; a pair is non-trivial when both dictionaries are non-empty and share a key "
            "(a collision the merge has to resolve); pairs are distinct by construction (distinct specs)"
        )

    def bounds(self, tier: str) -> dict:
        names = QUICK if tier == "quick" else THOROUGH
        return {n: {"keys": UNIVERSES[n][0], "leaves": repr(UNIVERSES[n][1]), "depth": UNIVERSES[n][2]} for n in names}

    def units(self, tier: str, seed: int) -> list:
        out = []
        for n in QUICK if tier == "quick" else THOROUGH:
            keys, leaves, depth = UNIVERSES[n]
            size = len(universe(keys, leaves, depth))
            step = max(1, size // 64)
            for lo in range(0, size, step):
                out.append({"universe": n, "lo": lo, "hi": min(size, lo + step)})
        return out

    def work(self, unit: dict, tier: str) -> dict:
        from asphalt.core import merge_config

        keys, leaves, depth = UNIVERSES[unit["universe"]]
        specs = universe(keys, leaves, depth)
        objs = [build(s, leaves) for s in specs]
        s = {"evaluations": 0, "transitions": 0, "states": 0, "distinct": 0, "nontrivial": 0, "violations": [],
             "capped": False, "samples": [], "outcomes": {}, "max_dev": 0, "errors": []}
        strict = tier == "quick" or len(specs) < 1000
        nviol = 0

        def report(key: str, msg: str, i: int, j: Any) -> None:
            nonlocal nviol
            nviol += 1
            if len(s["violations"]) < 3:
                s["violations"].append({
                    "keys": [key], "fails": [[key, msg]],
                    "program": {"universe": unit["universe"], "original": i, "overrides": j},
                    "choices": [], "trace": [], "outcome": "done",
                })

        if unit["lo"] == 0 and unit["universe"] == "ab-d2":
            # ONE dictionary object used as the override under two keys (what a YAML alias produces): both collisions are merges
            import copy as _copy

            small = universe(("x", "y"), (1,), 1)
            origs = universe(("a", "b"), (1,), 2)
            for oi, ospec in enumerate(origs):
                for sspec in small:
                    o_ = build(ospec, (1,))
                    if not (isinstance(o_.get("a"), dict) and isinstance(o_.get("b"), dict)):
                        continue
                    shared = build(sspec, (1,))
                    over = {"a": shared, "b": shared}
                    pristine = _copy.deepcopy(o_)
                    try:
                        r = merge_config(o_, over)
                    except Exception as e:  # noqa: BLE001
                        report("raises", f"shared override {shared!r}: {type(e).__name__}: {e}", -1, "shared")
                        continue
                    s["evaluations"] += 1
                    exp = ref_merge(pristine, {"a": _copy.deepcopy(shared), "b": _copy.deepcopy(shared)})
                    if not strict_eq(r, exp):
                        report("result", f"merge_config({pristine!r}, {{'a': S, 'b': S}}) with the one object S={shared!r} under both keys = {r!r}, expected {exp!r}", -1, "shared")
                    if not strict_eq(o_, pristine):
                        report("mutated", f"original changed from {pristine!r} to {o_!r} (shared override {shared!r})", -1, "shared")
        if unit["lo"] == 0:
            # every result is a NEW dictionary - also the empty ones (what a caller does to one result must not show in the next)
            try:
                e1 = merge_config({}, None)
                e1["poisoned"] = 1
                n1 = merge_config({"s": {}}, {"s": {}})
                n1["s"]["poisoned"] = 1
                e2 = merge_config(None, {})
                n2 = merge_config({"s": {}}, {"s": {}})
                s["evaluations"] += 4
                if e2 != {} or e1 is e2 or n2 != {"s": {}} or n1["s"] is n2["s"]:
                    report("not-new", f"after a caller had modified the results of earlier empty merges, merge_config(None, {{}}) = {e2!r} and "
                                      f"merge_config({{'s': {{}}}}, {{'s': {{}}}}) = {n2!r}", -1, "fresh-empty")
            except Exception as e:  # noqa: BLE001
                report("raises", f"fresh-empty: {type(e).__name__}: {e}", -1, "fresh-empty")
        if unit["lo"] == 0:
            # None for BOTH arguments (once per universe)
            try:
                r = merge_config(None, None)
                s["evaluations"] += 1
                if not strict_eq(r, {}):
                    report("result", f"merge_config(None, None) = {r!r}, expected {{}}", -1, "both-none")
            except Exception as e:  # noqa: BLE001
                report("raises", f"both-none: {type(e).__name__}: {e}", -1, "both-none")
        for i in range(unit["lo"], unit["hi"]):
            ocls = orig_class(unit["universe"])
            o = build(specs[i], leaves, ocls)
            o_pristine = build(specs[i], leaves, ocls)
            # None arguments
            for which in ("orig-none", "over-none"):
                try:
                    r = merge_config(None, o) if which == "orig-none" else merge_config(o, None)
                except Exception as e:  # noqa: BLE001
                    report("raises", f"{which}: {type(e).__name__}: {e}", i, which)
                    continue
                s["evaluations"] += 1
                exp_n = ref_merge(None, o_pristine) if which == "orig-none" else ref_merge(o_pristine, None)
                if not strict_eq(r, exp_n):
                    report("result", f"{which}: merge with None gave {r!r}, expected {exp_n!r}", i, which)
                if r is o:
                    report("not-new", f"{which}: result is the argument object", i, which)
                if not strict_eq(o, o_pristine):
                    report("mutated", f"{which}: argument changed to {o!r}", i, which)
                    o = build(specs[i], leaves, ocls)
            for j, v in enumerate(objs):
                try:
                    r = merge_config(o, v)
                except Exception as e:  # noqa: BLE001
                    report("raises", f"{type(e).__name__}: {e} for {o_pristine!r} + {build(specs[j], leaves)!r}", i, j)
                    continue
                s["evaluations"] += 1
                if o and v and not o.keys().isdisjoint(v):
                    s["nontrivial"] += 1
                exp = ref_merge(o_pristine, v)
                bad = False
                if r != exp or (strict and not strict_eq(r, exp)):
                    vp = build(specs[j], leaves)
                    report("result", f"merge_config({o_pristine!r}, {vp!r}) = {r!r}, expected {ref_merge(o_pristine, vp)!r}", i, j)
                    bad = True
                if r is o or r is v:
                    report("not-new", f"result is one of the arguments for {o_pristine!r}, {v!r}", i, j)
                if o != o_pristine or (strict and not strict_eq(o, o_pristine)):
                    report("mutated", f"original changed from {o_pristine!r} to {o!r} (overrides {build(specs[j], leaves)!r})", i, j)
                    o = build(specs[i], leaves, ocls)
                    bad = True
                vp2 = None
                if bad or strict:
                    vp2 = build(specs[j], leaves)
                    if not strict_eq(v, vp2):
                        report("mutated", f"overrides changed from {vp2!r} to {v!r} (original {o_pristine!r})", i, j)
                        objs[j] = vp2
                elif (j & 63) == 0:
                    vp2 = build(specs[j], leaves)
                    if v != vp2:
                        report("mutated", f"overrides changed from {vp2!r} to {v!r}", i, j)
                        objs[j] = vp2
            if len(s["samples"]) < 1 and i == unit["lo"]:
                jj = len(objs) // 2
                s["samples"].append({"universe": unit["universe"], "original": repr(o_pristine),
                                     "overrides": repr(objs[jj]), "result": repr(merge_config(o_pristine, objs[jj]))})
        # overrides mutated at the end (non-strict mode checks them all once)
        if not strict:
            for j, v in enumerate(objs):
                vp = build(specs[j], leaves)
                if v != vp:
                    report("mutated", f"overrides changed from {vp!r} to {v!r}", -1, j)
        s["transitions"] = s["evaluations"]
        s["states"] = unit["hi"] - unit["lo"]
        s["distinct"] = s["evaluations"]
        s["outcomes"] = {"done": s["evaluations"]}
        s["extra"] = {"violating_inputs": nviol}
        return s

    def replay(self, rec: dict) -> int:
        from asphalt.core import merge_config

        p = rec["program"]
        keys, leaves, depth = UNIVERSES[p["universe"]]
        specs = universe(keys, leaves, depth)
        o = build(specs[p["original"]], leaves, orig_class(p["universe"])) if p["original"] >= 0 else None
        j = p["overrides"]
        if j == "fresh-empty":
            s2 = self.work({"universe": "a-d4", "lo": 0, "hi": 0}, "quick")
            for v in s2["violations"]:
                for f in v["fails"]:
                    print("FAIL", f[0], "-", f[1])
            if s2["violations"]:
                print(f"VIOLATION property=C17 replay={rec.get('_path', '')}")
            return 1 if s2["violations"] else 0
        if j == "shared":
            print("(shared-override family: re-running the whole family)")
            s2 = self.work({"universe": "ab-d2", "lo": 0, "hi": 0}, "quick")
            for v in s2["violations"]:
                for f in v["fails"]:
                    print("FAIL", f[0], "-", f[1])
            if s2["violations"]:
                print(f"VIOLATION property=C17 replay={rec.get('_path', '')}")
            return 1 if s2["violations"] else 0
        if j == "both-none":
            a, b = None, None
        elif j == "orig-none":
            a, b = None, o
        elif j == "over-none":
            a, b = o, None
        else:
            a, b = o, build(specs[j], leaves)
        import copy

        a0, b0 = copy.deepcopy(a), copy.deepcopy(b)
        r = merge_config(a, b)
        exp = ref_merge(a0, b0)
        print("merge_config(", a0, ",", b0, ") =", r, " expected", exp)
        print("arguments afterwards:", a, b)
        bad = not strict_eq(r, exp) or not strict_eq(a, a0) or not strict_eq(b, b0) or r is a or r is b
        if bad:
            print(f"VIOLATION property=C17 replay={rec.get('_path', '')}")
        return 1 if bad else 0


CHECK = C17()
