"""Recording components used by the configuration checks (C14, C16); resolvable as classes, as
``vkplugins.comps:Name`` references and through the ``asphalt.components`` entry points of the fake
distribution next to this package."""

from __future__ import annotations

import copy
from typing import Any

from asphalt.core import CLIApplicationComponent, Component, add_resource, add_resource_factory

REC: list = []


class Res:
    def __init__(self, cls: str, label: str) -> None:
        self.cls = cls
        self.label = label


def _mk(name: str) -> type:
    return type(name, (Res,), {})


RES_TYPES: dict[str, type] = {}


def rtype(cls: str, phase: str) -> type:
    key = f"{cls}_{phase}"
    if key not in RES_TYPES:
        RES_TYPES[key] = _mk("R_" + key)
    return RES_TYPES[key]


class Rec(Component):
    family = "?"
    per_tag = False

    def __init__(self, **kw: Any) -> None:
        REC.append(("ctor", type(self).__name__, copy.deepcopy(kw)))
        self.kw = kw
        self.setup()

    def setup(self) -> None:
        pass

    async def prepare(self) -> None:
        tag = self.kw.get("tag", "")
        fam = self.family + (tag if self.per_tag else "")
        if self.kw.get("pdef", True):
            add_resource(rtype(fam, "p")(fam, f"{type(self).__name__}:{tag}:prepare-default"))
        add_resource(rtype(fam, "p")(fam, f"{type(self).__name__}:{tag}:prepare-named"), f"np_{self.family}{tag}")
        # factory types are per tag, so that several components of one class never conflict
        T = rtype(self.family + tag, "pf")
        add_resource_factory(lambda T=T, fam=fam, tag=tag: T(fam, f"{type(self).__name__}:{tag}:prepare-factory"), types=T)

    async def start(self) -> None:
        from asphalt.core import Context

        # (the component first uses a context of its own; what it publishes afterwards is still published by the component)
        async with Context():
            pass
        tag = self.kw.get("tag", "")
        fam = self.family + (tag if self.per_tag else "")
        add_resource(rtype(fam, "s")(fam, f"{type(self).__name__}:{tag}:start-default"))
        add_resource(rtype(fam, "s")(fam, f"{type(self).__name__}:{tag}:start-named"), f"ns_{self.family}{tag}")
        T = rtype(self.family + tag, "sf")
        add_resource_factory(lambda T=T, fam=fam, tag=tag: T(fam, f"{type(self).__name__}:{tag}:start-factory"), types=T)


class G(Rec):
    family = "G"


class G2(G):
    pass


class A(Rec):
    family = "A"

    def setup(self) -> None:
        self.add_component("g", type=G, y=1, opt=None)  # (an option explicitly set to None is still passed to the child)


class A2(A):
    pass


class C(Rec):
    family = "C"


class W(Rec):
    family = "W"
    per_tag = True


class NS:
    """a namespace: component classes may be referenced as ``vkplugins.comps:NS.C2`` (dotted attribute path)"""

    class C2(C):
        pass


# a module-level name that a wrong attribute walk would pick up instead of NS.C2
class C2(Rec):
    family = "WRONG"


class Inner(Rec):
    family = "Inner"
    per_tag = True


class Dyn(Rec):
    """starts another component tree from inside its own start() (a dynamically loaded sub-tree)"""

    family = "Dyn"
    per_tag = True

    async def start(self) -> None:
        from asphalt.core import start_component

        await super().start()
        await start_component(Inner, {"tag": "in" + self.kw.get("tag", "")}, timeout=None)


class K(Rec):
    family = "K"

    def setup(self) -> None:
        # a plain-alias child below a kind/name component: its default-named resources must stay "default"
        self.add_component("w", type=W, tag=self.kw.get("tag", ""))

    def start(self) -> Any:  # type: ignore[override]
        # NOT a coroutine function (as when start() is wrapped by a decorator): the default-named resource is added synchronously
        # while start() is being CALLED, the rest in the awaitable it returns - both belong to the start phase
        tag = self.kw.get("tag", "")
        if tag == "n":
            return super().start()  # (the hard-coded k/n child keeps the ordinary coroutine-function behaviour)
        fam = self.family + (tag if self.per_tag else "")
        add_resource(rtype(fam, "s")(fam, f"{type(self).__name__}:{tag}:start-default"))

        async def rest() -> None:
            add_resource(rtype(fam, "s")(fam, f"{type(self).__name__}:{tag}:start-named"), f"ns_{self.family}{tag}")
            T = rtype(self.family + tag, "sf")
            add_resource_factory(lambda T=T, fam=fam, tag=tag: T(fam, f"{type(self).__name__}:{tag}:start-factory"), types=T)

        return rest()


# hard-coded defaults kept in a module-level constant, as real components do: merging must not modify them
A_DEFAULT_D = {"p": 1, "q": {"r": 1}}
A_DEFAULT_D_PRISTINE = copy.deepcopy(A_DEFAULT_D)


class Root(Rec):
    family = "Root"

    def setup(self) -> None:
        self.add_component("a", type=A, x=1, d=A_DEFAULT_D)


class RootK(Root):
    def setup(self) -> None:
        super().setup()
        self.add_component("k/n", type=K, tag="n", pdef=False)


class CliRoot(CLIApplicationComponent):
    """Root used by C16's end-to-end runs: records what it was constructed with."""

    def __init__(self, **kw: Any) -> None:
        REC.append(("cli-ctor", copy.deepcopy(kw)))

    async def run(self) -> None:
        REC.append(("cli-run",))
        return None
