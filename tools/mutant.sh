#!/bin/bash
# usage: tools/mutant.sh <patch.diff> <tier> <check id>...   - run checks against a scratch worktree of /repo with the patch applied
set -u
PATCH=$(readlink -f "$1"); TIER=$2; shift 2
WT=/tmp/mutwt-$$-$RANDOM
git -C /repo worktree add --detach "$WT" HEAD >/dev/null 2>&1 || { echo "worktree failed"; exit 3; }
trap 'git -C /repo worktree remove --force "$WT" >/dev/null 2>&1; rm -rf /tmp/vout-$$' EXIT
if ! git -C "$WT" apply "$PATCH" 2>/tmp/apply-err-$$; then echo "APPLY-FAILED $(cat /tmp/apply-err-$$)"; rm -f /tmp/apply-err-$$; exit 4; fi
rm -f /tmp/apply-err-$$
HERE=$(cd "$(dirname "$0")/.." && pwd)
for c in "$@"; do
  out=$(VERIF_REPO="$WT" VERIF_OUT=/tmp/vout-$$ "$HERE/bin/check" "$c" --tier "$TIER" 2>&1); rc=$?
  echo "== $c rc=$rc"; echo "$out" | grep -E "VIOLATION|KNOWN|HARNESS|keys=" | head -6; echo "$out" | tail -1
done
