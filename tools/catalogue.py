#!/usr/bin/env python3
"""Write seeded/CATALOGUE.md from the meta.json files of the seeded defects."""
import json, os
HERE = os.path.dirname(os.path.dirname(os.path.abspath(__file__)))
rows = []
for name in sorted(os.listdir(os.path.join(HERE, "seeded"))):
    d = os.path.join(HERE, "seeded", name)
    if not os.path.isdir(d):
        continue
    m = json.load(open(os.path.join(d, "meta.json")))
    v = (m.get("verified") or {}).get("quick", {})
    ok = v.get("demo_without_change") == 0 and v.get("demo_with_change") == 1 and v.get("tests_ok")
    caught = ",".join(v.get("caught_by") or []) or "-"
    status = "effective" if ok else ("neutral on the repaired tree" if v.get("demo_with_change") == 0 else "unverified")
    if m.get("disputed"):
        status = "not a violation of the statement (see meta.json: disputed)"
    if m.get("superseded"):
        status = "superseded by a fix commit (see meta.json: superseded)"
    first = ""
    own = name.split("-")[0]
    if own in (v.get("checks") or {}):
        first = (v["checks"][own].get("first") or "").strip().replace("|", "/")[:160]
    rows.append((name, status, caught, (m.get("summary") or "").replace("\n", " ").replace("|", "/")[:230], (m.get("needs") or "").replace("\n", " ").replace("|", "/")[:200], first, "ported" if os.path.exists(os.path.join(d, "patch.orig.diff")) else ""))
with open(os.path.join(HERE, "seeded", "CATALOGUE.md"), "w") as f:
    f.write("# Seeded defects\n\nWritten by independent sub-agents (property text + private worktree only), verified by `tools/seedverify.py` "
            "(demo 0 -> 1, baseline test result unchanged, quick check of the property exits 1).  `ported` = the patch had to be re-based after a `fix:` commit "
            "(`patch.orig.diff` is what the sub-agent delivered).\n\n")
    eff = [r for r in rows if r[1] == "effective"]
    disputed = [r for r in rows if r[1].startswith("not a violation")]
    f.write(f"{len(rows)} changes, {len(eff)} effective on the current tree, {sum(1 for r in eff if r[0].split('-')[0] in r[2].split(','))} of them caught by the quick check of their own property; {len(disputed)} judged not to violate the statement as written.\n\n")
    f.write("| id | status | caught by (quick) | what was changed | what it needs | first violation reported | |\n|---|---|---|---|---|---|---|\n")
    for r in rows:
        f.write("| " + " | ".join(r) + " |\n")
print(len(rows), "rows")
