CHECKS = {
    "C01": {
        "engine": "E1",
        "text": "Every execution of every teardown program (context kind x <=3 callback specs over 4 registration routes x 6 block endings) is enumerated on the real Context under a controlled asyncio loop: all gate completion orders and a cancellation injected at every loop iteration of the block body (deviation bound 1 quick / 2 thorough); each execution is compared with a list-as-stack reference model.",
        "design_ref": "DESIGN.md 5 C01",
        "note": "bounded: <=3 callbacks (+1 nested each), one cancellation per execution; asyncio FIFO ready queue; anyio/asyncio themselves trusted",
        "technique": "stateless bounded exhaustive schedule/fault exploration of the real code (controlled event loop) against a reference model",
    },
    "C17": {
        "engine": "E3",
        "text": "All ordered pairs of nested dictionaries of five small universes (depth<=4, keys a/b/a.b, leaves 1/None/[1]/'s'), plus None arguments, are run through the real merge_config and an independent reference; result, novelty of the result object and non-mutation of both arguments are compared for every pair.",
        "design_ref": "DESIGN.md 5 C17",
        "note": "bounded universes; aliasing of un-merged nested values is allowed",
        "technique": "exhaustive small-scope input enumeration against a reference implementation",
    },
}

_E2 = "explicit-state BFS over API operation histories replayed on fresh real contexts (one actor task per context, controlled loop, default schedule), deduplicated by canonical (model, implementation) state, compared with a reference model on every transition plus a sweep of all lookup APIs in every reached state"
CHECKS.update({
    "C02": {"engine": "E2", "text": "All histories of new/enter/leave/add_resource/add_resource_factory/generating lookups up to the stated depth over <=4 contexts are replayed on real contexts; after every step every lookup API is asked for every (type,name) in every open context and compared with a model in which a child is a snapshot of its parent at construction.", "design_ref": "DESIGN.md 5 C02", "note": "bounded depth/contexts/keys; sequential histories (no concurrency inside a history)", "technique": "explicit-state BFS over operation histories of the real API against a reference model"},
    "C03": {"engine": "E2", "text": "All histories of succeeding and failing add_resource/add_resource_factory calls (conflict on first/second type, 11 invalid-argument forms) and lookups in a context and its child; failing calls must leave get_resources, all lookups, listeners and the teardown callbacks run at unwinding equal to the model in which the call never happened; hand-out stability per (context, pair).", "design_ref": "DESIGN.md 5 C03", "note": "bounded depth; 'observably unchanged' judged through the public API only", "technique": "explicit-state BFS over operation histories of the real API against a reference model"},
    "C04": {"engine": "E2+E1", "text": "Sequential part: BFS over factory registration/lookup/child-creation histories comparing factory body executions and returned objects per context with the model. Racing part: 2-3 tasks look up the same factory-backed pair through method/shortcut/@inject while the async factory is parked at a gate; all completion orders and injected preemptions within the deviation bound.", "design_ref": "DESIGN.md 5 C04", "note": "bounded; factories that raise are outside the statement", "technique": "explicit-state BFS over histories + stateless bounded schedule exploration of racing lookups on a controlled event loop"},
    "C13": {"engine": "E2", "text": "All histories of enter/leave (clean, exception, cancellation, raising teardown)/re-enter and the five context operations in the states never-entered, open, inside a teardown callback and closed, compared with a four-state reference machine; denied calls must raise RuntimeError and leave get_resources, listeners and later teardown unchanged.", "design_ref": "DESIGN.md 5 C13", "note": "<=2 contexts; closing state reached via a first-registered teardown callback", "technique": "explicit-state BFS over lifecycle histories of the real API against a reference state machine"},
    "C18": {"engine": "E2", "text": "All histories of succeeding and failing add/factory/lookup operations over <=3 contexts with a stream_events listener on every context; per-context event lists (types, name, description, is_factory) are compared with the model after every step.", "design_ref": "DESIGN.md 5 C18", "note": "bounded depth; event types in the taken-type corner may be the factory's types or the registered subset", "technique": "explicit-state BFS over operation histories of the real API against a reference model"},
})

_todo = ["C02","C03","C04","C05","C06","C07","C08","C09","C10","C11","C12","C13","C14","C15","C16","C18","C19"]
NOT_APPLICABLE = [{"property_id": c, "reason": "check under construction in this session (designed in DESIGN.md section 5); not claimed until its harness is committed"} for c in _todo if c not in CHECKS]
