CHECKS = {
    "C01": {
        "engine": "E1",
        "text": "Every execution of every teardown program (context kind x <=3 callback specs over 4 registration routes x 6 block endings) is enumerated on the real Context under a controlled asyncio loop: all gate completion orders and a cancellation injected at every loop iteration of the block body (deviation bound 1 quick / 2 thorough); each execution is compared with a list-as-stack reference model.",
        "design_ref": "DESIGN.md 5 C01",
        "note": "bounded: <=3 callbacks (+1 nested each), one cancellation per execution; asyncio FIFO ready queue; anyio/asyncio themselves trusted",
        "technique": "stateless bounded exhaustive schedule/fault exploration of the real code (controlled event loop) against a reference model",
    },
    "C17": {
        "engine": "E3",
        "text": "All ordered pairs of nested dictionaries of five small universes (depth<=4, keys a/b/a.b, leaves 1/None/[1]/'s'), plus None arguments, are run through the real merge_config and an independent reference; result, novelty of the result object and non-mutation of both arguments are compared for every pair.",
        "design_ref": "DESIGN.md 5 C17",
        "note": "bounded universes; aliasing of un-merged nested values is allowed",
        "technique": "exhaustive small-scope input enumeration against a reference implementation",
    },
}
_todo = ["C02","C03","C04","C05","C06","C07","C08","C09","C10","C11","C12","C13","C14","C15","C16","C18","C19"]
NOT_APPLICABLE = [{"property_id": c, "reason": "check under construction in this session (designed in DESIGN.md section 5); not claimed until its harness is committed"} for c in _todo if c not in CHECKS]
