#!/usr/bin/env python3
"""Regenerate MANIFEST.json from the table below (kept in one place so that it stays valid)."""
import json, os, sys
HERE = os.path.dirname(os.path.dirname(os.path.abspath(__file__)))
sys.path.insert(0, os.path.join(HERE, "tools"))
from manifest_table import CHECKS, NOT_APPLICABLE  # noqa: E402

SUFFIX = (" Further program families that were added against seeded defects (DESIGN.md section 9) and the exact bounds per tier are "
          "reported in the `bounds`, `rule` and `assumptions` fields of the evidence file written by every run.")
checks = []
for cid, c in CHECKS.items():
    checks.append({
        "property_id": cid,
        "quick_cmd": f"bin/check {cid} --tier quick",
        "thorough_cmd": f"bin/check {cid} --tier thorough",
        "evidence_file": f"/verif/evidence/{cid}.json",
        "replay_cmd_template": "bin/check --replay {path}",
        "engine": c["engine"],
        "level_claimed": {"category": "model_checking", "text": c["text"] + SUFFIX, "design_ref": c["design_ref"]},
        "level_note": c["note"],
        "technique": c["technique"],
    })
m = {
    "version": 1,
    "setup_cmd": "bin/selftest",
    "hooks": {
        "guard": "ASPHALT_VERIF",
        "enable": "none needed: checks import /repo/src directly (PYTHONPATH) and observe through the public API; no hook code exists in the repository",
        "baseline_off_cmd": "cd /repo && /venv/bin/python -m pytest -ra -q -p no:cacheprovider --timeout=900 --continue-on-collection-errors",
        "source_commits": [],
        "add_only": True,
    },
    "engines": [
        {"name": "E1", "path": "lib/vk/vloop.py, lib/vk/explore.py", "serves_properties": [c for c, v in CHECKS.items() if "E1" in v["engine"]],
         "kind_free_text": "stateless deviation-bounded explorer over a controlled asyncio event loop running the real asphalt code"},
        {"name": "E2", "path": "lib/vk/bfs.py", "serves_properties": [c for c, v in CHECKS.items() if "E2" in v["engine"]],
         "kind_free_text": "explicit-state BFS over API operation histories of the real objects with a reference model compared on every transition"},
        {"name": "E3", "path": "lib/vk/checks", "serves_properties": [c for c, v in CHECKS.items() if "E3" in v["engine"]],
         "kind_free_text": "exhaustive small-scope enumeration of inputs/configurations against an independent reference"},
    ],
    "checks": checks,
    "not_applicable": NOT_APPLICABLE,
    "notes": "All checks run /venv/bin/python against /repo/src (or $VERIF_REPO/src for scratch copies); see DESIGN.md.",
}
json.dump(m, open(os.path.join(HERE, "MANIFEST.json"), "w"), indent=1)
print("checks:", len(checks), "not_applicable:", len(NOT_APPLICABLE))
