#!/usr/bin/env python3
"""Verify every seeded defect under /verif/seeded and run the checks against it.

For each /verif/seeded/<id>/ (patch.diff, demo.py, meta.json):
  1. scratch worktree of /repo HEAD outside /repo and /verif
  2. demo on the unchanged tree must exit 0
  3. patch must apply; the repository's test suite must give the baseline result (287 passed, the 4 known failures)
  4. demo with the patch must exit 1
  5. the quick check(s) of the property (and any extra checks given on the command line) must exit 1 with a VIOLATION line
Results are written to meta.json["verified"] and summarised in seeded/RESULTS.json.

usage: tools/seedverify.py [--tier quick] [--only C01-A,...] [--checks own|all|C01,C15]
"""
import argparse
import json
import os
import subprocess
import sys
import tempfile
from concurrent.futures import ThreadPoolExecutor

HERE = os.path.dirname(os.path.dirname(os.path.abspath(__file__)))
ALL = [f"C{i:02d}" for i in range(1, 20)]


def sh(cmd, **kw):
    return subprocess.run(cmd, shell=True, capture_output=True, text=True, **kw)


def verify(name, tier, checks_mode, skip_tests=False):
    d = os.path.join(HERE, "seeded", name)
    prop = name.split("-")[0]
    meta = json.load(open(os.path.join(d, "meta.json")))
    wt = tempfile.mkdtemp(prefix=f"seed-{name}-", dir="/tmp")
    os.rmdir(wt)
    res = {"tier": tier}
    try:
        r = sh(f"git -C /repo worktree add --detach {wt} HEAD")
        if r.returncode:
            res["error"] = "worktree: " + r.stderr[-300:]
            return name, res
        env = dict(os.environ, PYTHONPATH=f"{wt}/src", PYTHONDONTWRITEBYTECODE="1")
        r = sh(f"/venv/bin/python {d}/demo.py", env=env, cwd=wt, timeout=300)
        res["demo_without_change"] = r.returncode
        r = sh(f"git -C {wt} apply {d}/patch.diff")
        res["applies"] = r.returncode == 0
        if not res["applies"]:
            res["error"] = r.stderr[-300:]
            return name, res
        if not skip_tests:
            r = sh("/venv/bin/python -m pytest -q -p no:cacheprovider tests 2>&1 | tail -1", env=env, cwd=wt, timeout=900)
            res["tests"] = r.stdout.strip()
            res["tests_ok"] = "287 passed" in r.stdout and "4 failed" in r.stdout
        r = sh(f"/venv/bin/python {d}/demo.py", env=env, cwd=wt, timeout=300)
        res["demo_with_change"] = r.returncode
        checks = [prop] if checks_mode == "own" else (ALL if checks_mode == "all" else checks_mode.split(","))
        if prop not in checks:
            checks = [prop] + checks
        res["checks"] = {}
        out = tempfile.mkdtemp(prefix="vout-", dir="/tmp")
        for c in checks:
            e2 = dict(os.environ, VERIF_REPO=wt, VERIF_OUT=out, VERIF_STOP_AFTER=os.environ.get("VERIF_STOP_AFTER", "3"))
            r = sh(f"{HERE}/bin/check {c} --tier {tier}", env=e2, cwd=HERE, timeout=7200)
            lines = [ln for ln in r.stdout.splitlines() if ln.startswith("VIOLATION") or ln.startswith("  keys=")]
            res["checks"][c] = {"rc": r.returncode, "first": lines[1][:300] if len(lines) > 1 else (lines[0] if lines else ""),
                                "summary": r.stdout.strip().splitlines()[-1][-260:] if r.stdout.strip() else r.stderr[-200:]}
        sh(f"rm -rf {out}")
        res["caught_by"] = sorted(c for c, v in res["checks"].items() if v["rc"] == 1)
    finally:
        sh(f"git -C /repo worktree remove --force {wt}")
        sh(f"rm -rf {wt}")
    prev = meta.get("verified", {}).get(tier, {})
    if skip_tests and "tests" not in res and prev.get("tests_ok"):
        # the suite was run on this very patch against this very /repo commit by an earlier full verification: carry its record over
        res["tests"], res["tests_ok"], res["tests_from_earlier_run"] = prev.get("tests"), True, True
    meta.setdefault("verified", {})[tier] = res
    json.dump(meta, open(os.path.join(d, "meta.json"), "w"), indent=1)
    return name, res


def main():
    ap = argparse.ArgumentParser()
    ap.add_argument("--tier", default="quick")
    ap.add_argument("--only")
    ap.add_argument("--checks", default="own")
    ap.add_argument("--jobs", type=int, default=3)
    ap.add_argument("--skip-tests", action="store_true")
    a = ap.parse_args()
    names = sorted(n for n in os.listdir(os.path.join(HERE, "seeded")) if os.path.isdir(os.path.join(HERE, "seeded", n)))
    if a.only:
        names = [n for n in names if n in a.only.split(",")]
    results = {}
    with ThreadPoolExecutor(a.jobs) as ex:
        for name, res in ex.map(lambda n: verify(n, a.tier, a.checks, a.skip_tests), names):
            results[name] = res
            ok = res.get("demo_without_change") == 0 and res.get("demo_with_change") == 1 and res.get("tests_ok", a.skip_tests) and name.split("-")[0] in res.get("caught_by", [])
            print(f"{name}: {'OK ' if ok else 'ATTENTION '} demo {res.get('demo_without_change')}->{res.get('demo_with_change')} tests={res.get('tests', '-')!r} "
                  f"caught_by={res.get('caught_by')} {res.get('error', '')}", flush=True)
    path = os.path.join(HERE, "seeded", "RESULTS.json")
    old = json.load(open(path)) if os.path.exists(path) else {}
    for n, r in results.items():
        old.setdefault(n, {})[a.tier] = {k: r.get(k) for k in ("demo_without_change", "demo_with_change", "tests", "tests_ok", "applies", "caught_by")}
        old[n][a.tier]["checks_run"] = sorted(r.get("checks", {}))
    json.dump(old, open(path, "w"), indent=1, sort_keys=True)


if __name__ == "__main__":
    sys.exit(main())
