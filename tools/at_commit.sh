#!/bin/bash
# usage: tools/at_commit.sh <repo commit> <tier> <check id>...  - run checks against a scratch worktree of /repo at that commit
set -u
C=$1; TIER=$2; shift 2
WT=/tmp/atc-$$-$RANDOM
git -C /repo worktree add --detach "$WT" "$C" >/dev/null 2>&1 || { echo "worktree failed"; exit 3; }
trap 'git -C /repo worktree remove --force "$WT" >/dev/null 2>&1; rm -rf /tmp/vout-$$' EXIT
HERE=$(cd "$(dirname "$0")/.." && pwd)
for c in "$@"; do
  out=$(VERIF_REPO="$WT" VERIF_OUT=/tmp/vout-$$ "$HERE/bin/check" "$c" --tier "$TIER" 2>&1); rc=$?
  echo "== $c @ $C rc=$rc"; echo "$out" | tail -1 | grep -o "violating_keys=.*"
done
